package vrt

// Environment model shared by keeper-level harnesses (overlaid as zz_verif_ctx.go with the package clause rewritten):
// an ordered in-memory KV store, a multistore with copy-on-branch cache semantics, a no-op logger and a
// context builder. The same Go code is executed symbolically by gosym and natively for replay.

import (
	"io"
	"sort"
	"time"

	"cosmossdk.io/log"
	storetypes "cosmossdk.io/store/types"
	cmtproto "github.com/cometbft/cometbft/proto/tendermint/types"
	sdk "github.com/cosmos/cosmos-sdk/types"
)

// ---------------------------------------------------------------- KV store

type vKV struct {
	keys []string
	vals [][]byte
}

func vNewKV() *vKV { return &vKV{} }

func (s *vKV) find(k string) (int, bool) {
	i := sort.SearchStrings(s.keys, k)
	return i, i < len(s.keys) && s.keys[i] == k
}

func (s *vKV) GetStoreType() storetypes.StoreType { return storetypes.StoreTypeMemory }
func (s *vKV) CacheWrap() storetypes.CacheWrap    { panic("vKV.CacheWrap not modelled") }
func (s *vKV) CacheWrapWithTrace(w io.Writer, tc storetypes.TraceContext) storetypes.CacheWrap {
	panic("vKV.CacheWrapWithTrace not modelled")
}

func (s *vKV) Get(key []byte) []byte {
	if key == nil {
		panic("nil key")
	}
	if i, ok := s.find(string(key)); ok {
		return s.vals[i]
	}
	return nil
}

func (s *vKV) Has(key []byte) bool {
	_, ok := s.find(string(key))
	return ok
}

func (s *vKV) Set(key, value []byte) {
	if key == nil || value == nil {
		panic("nil key or value")
	}
	k := string(key)
	i, ok := s.find(k)
	if ok {
		s.vals[i] = value
		return
	}
	s.keys = append(s.keys, "")
	s.vals = append(s.vals, nil)
	copy(s.keys[i+1:], s.keys[i:])
	copy(s.vals[i+1:], s.vals[i:])
	s.keys[i] = k
	s.vals[i] = value
}

func (s *vKV) Delete(key []byte) {
	if i, ok := s.find(string(key)); ok {
		s.keys = append(s.keys[:i], s.keys[i+1:]...)
		s.vals = append(s.vals[:i], s.vals[i+1:]...)
	}
}

func (s *vKV) clone() *vKV {
	return &vKV{keys: append([]string{}, s.keys...), vals: append([][]byte{}, s.vals...)}
}

type vIter struct {
	keys       []string
	vals       [][]byte
	pos        int
	start, end []byte
}

func (s *vKV) rangeOf(start, end []byte) (int, int) {
	lo := 0
	if start != nil {
		lo = sort.SearchStrings(s.keys, string(start))
	}
	hi := len(s.keys)
	if end != nil {
		hi = sort.SearchStrings(s.keys, string(end))
	}
	if hi < lo {
		hi = lo
	}
	return lo, hi
}

func (s *vKV) Iterator(start, end []byte) storetypes.Iterator {
	lo, hi := s.rangeOf(start, end)
	return &vIter{keys: append([]string{}, s.keys[lo:hi]...), vals: append([][]byte{}, s.vals[lo:hi]...), start: start, end: end}
}

func (s *vKV) ReverseIterator(start, end []byte) storetypes.Iterator {
	lo, hi := s.rangeOf(start, end)
	n := hi - lo
	it := &vIter{keys: make([]string, n), vals: make([][]byte, n), start: start, end: end}
	for i := 0; i < n; i++ {
		it.keys[i] = s.keys[hi-1-i]
		it.vals[i] = s.vals[hi-1-i]
	}
	return it
}

func (it *vIter) Domain() ([]byte, []byte) { return it.start, it.end }
func (it *vIter) Valid() bool              { return it.pos < len(it.keys) }
func (it *vIter) Next() {
	if !it.Valid() {
		panic("iterator is invalid")
	}
	it.pos++
}
func (it *vIter) Key() []byte {
	if !it.Valid() {
		panic("iterator is invalid")
	}
	return []byte(it.keys[it.pos])
}
func (it *vIter) Value() []byte {
	if !it.Valid() {
		panic("iterator is invalid")
	}
	return it.vals[it.pos]
}
func (it *vIter) Error() error { return nil }
func (it *vIter) Close() error { return nil }

// ---------------------------------------------------------------- multistore with branch/write

type vMS struct {
	names  []string
	stores []*vKV
	parent *vMS
}

func vNewMS(names ...string) *vMS {
	m := &vMS{}
	for _, n := range names {
		m.names = append(m.names, n)
		m.stores = append(m.stores, vNewKV())
	}
	return m
}

func (m *vMS) byName(name string) *vKV {
	for i, n := range m.names {
		if n == name {
			return m.stores[i]
		}
	}
	// unknown store keys get an empty store on first use
	m.names = append(m.names, name)
	m.stores = append(m.stores, vNewKV())
	return m.stores[len(m.stores)-1]
}

func (m *vMS) GetStoreType() storetypes.StoreType { return storetypes.StoreTypeMulti }
func (m *vMS) CacheWrap() storetypes.CacheWrap    { return m.CacheMultiStore().(storetypes.CacheWrap) }
func (m *vMS) CacheWrapWithTrace(w io.Writer, tc storetypes.TraceContext) storetypes.CacheWrap {
	return m.CacheWrap()
}
func (m *vMS) CacheMultiStore() storetypes.CacheMultiStore {
	c := &vMS{parent: m}
	for i, n := range m.names {
		c.names = append(c.names, n)
		c.stores = append(c.stores, m.stores[i].clone())
	}
	return c
}
func (m *vMS) CacheMultiStoreWithVersion(version int64) (storetypes.CacheMultiStore, error) {
	return m.CacheMultiStore(), nil
}
func (m *vMS) GetStore(k storetypes.StoreKey) storetypes.Store     { return m.byName(k.Name()) }
func (m *vMS) GetKVStore(k storetypes.StoreKey) storetypes.KVStore { return m.byName(k.Name()) }
func (m *vMS) TracingEnabled() bool                                { return false }
func (m *vMS) SetTracer(w io.Writer) storetypes.MultiStore         { return m }
func (m *vMS) SetTracingContext(storetypes.TraceContext) storetypes.MultiStore {
	return m
}
func (m *vMS) LatestVersion() int64 { return 0 }

// Write copies the branch back into its parent (the semantics of CacheMultiStore.Write).
func (m *vMS) Write() {
	if m.parent == nil {
		return
	}
	for i, n := range m.names {
		dst := m.parent.byName(n)
		dst.keys = append([]string{}, m.stores[i].keys...)
		dst.vals = append([][]byte{}, m.stores[i].vals...)
	}
}

// vStoreKeys returns the sorted keys of a named store (for frame conditions in harnesses).
func (m *vMS) vKeys(name string) []string { return append([]string{}, m.byName(name).keys...) }

// ---------------------------------------------------------------- logger, context

type vLogger struct{}

func (vLogger) Info(msg string, keyVals ...any)  {}
func (vLogger) Warn(msg string, keyVals ...any)  {}
func (vLogger) Error(msg string, keyVals ...any) {}
func (vLogger) Debug(msg string, keyVals ...any) {}
func (l vLogger) With(keyVals ...any) log.Logger { return l }
func (vLogger) Impl() any                        { return nil }

// vNewCtx builds a context over the model multistore with the given block time and height.
func vNewCtx(ms *vMS, blockTime time.Time, height int64) sdk.Context {
	return sdk.Context{}.
		WithMultiStore(ms).
		WithBlockHeader(cmtproto.Header{Time: blockTime, Height: height}).
		WithLogger(vLogger{}).
		WithGasMeter(storetypes.NewInfiniteGasMeter()).
		WithEventManager(sdk.NewEventManager())
}

// vTimeFromNanos builds a UTC time from nanoseconds since the Unix epoch (symbolic engine: the identity on the
// integer model of time.Time).
func vTimeFromNanos(ns int64) time.Time { return time.Unix(0, ns).UTC() }
