package vrt

// Harness runtime. This file is overlaid into each package under verification as zz_verif_rt.go
// (with the package clause rewritten). The symbolic engine intercepts every function below by name;
// the bodies are the native semantics used for replaying counterexamples and for the translator self-test.

import (
	"encoding/json"
	"fmt"
	"math/big"
	"os"
)

type vAssumeFailed struct{ msg string }

var vCex map[string]string
var vFailures []string
var vObserved []string

func vLoad() {
	if vCex != nil {
		return
	}
	vCex = map[string]string{}
	p := os.Getenv("VERIF_CEX")
	if p == "" {
		return
	}
	bz, err := os.ReadFile(p)
	if err != nil {
		panic(err)
	}
	var doc struct {
		Values map[string]string `json:"values"`
	}
	if err := json.Unmarshal(bz, &doc); err != nil {
		panic(err)
	}
	vCex = doc.Values
}

func vLookup(name string) *big.Int {
	vLoad()
	s, ok := vCex[name]
	if !ok {
		return new(big.Int)
	}
	v, ok := new(big.Int).SetString(s, 10)
	if !ok {
		panic("bad cex value for " + name)
	}
	return v
}

func vNondetBig(name string) *big.Int { return vLookup(name) }
func vNondetI64(name string) int64 {
	v := vLookup(name)
	if !v.IsInt64() {
		panic(vAssumeFailed{"int64 range " + name})
	}
	return v.Int64()
}
func vNondetU64(name string) uint64 {
	v := vLookup(name)
	if !v.IsUint64() {
		panic(vAssumeFailed{"uint64 range " + name})
	}
	return v.Uint64()
}
func vPresent(name string) bool {
	vLoad()
	_, ok := vCex[name]
	return ok
}

func vNondetRange(name string, lo, hi int64) int64 {
	if !vPresent(name) {
		// a variable the solver's query did not mention: any value in range will do
		if lo <= 0 && hi >= 0 {
			return 0
		}
		return lo
	}
	v := vNondetI64(name)
	if v < lo || v > hi {
		panic(vAssumeFailed{"range " + name})
	}
	return v
}
func vNondetBool(name string) bool { return vLookup(name).Sign() != 0 }
func vNondetStr(name string) string {
	vLoad()
	if s, ok := vCex["str:"+name]; ok {
		return "s" + s
	}
	return "s0"
}
func vChoose(name string, n int) int {
	v := int(vNondetI64(name))
	if v < 0 || v >= n {
		panic(vAssumeFailed{"choose " + name})
	}
	return v
}
func vAssume(c bool) {
	if !c {
		panic(vAssumeFailed{"assume"})
	}
}
func vAssert(c bool, label string) {
	if !c {
		vFailures = append(vFailures, label)
		fmt.Printf("VERIF-ASSERT-FAIL %s\n", label)
	}
}
func vReach(label string) {}
func vObserve(label string, v interface{}) {
	s := ""
	switch x := v.(type) {
	case *big.Int:
		if x == nil {
			s = "nil"
		} else {
			s = x.String()
		}
	case fmt.Stringer:
		s = x.String()
	default:
		s = fmt.Sprint(v)
	}
	vObserved = append(vObserved, label+"="+s)
	fmt.Printf("VERIF-OBSERVE %s=%s\n", label, s)
}
func vPanics(f func()) (p bool) {
	defer func() {
		if r := recover(); r != nil {
			if af, ok := r.(vAssumeFailed); ok {
				panic(af)
			}
			p = true
		}
	}()
	f()
	return false
}
func vConfig(key string, val int)  {}
func vBigEq(a, b *big.Int) bool    { return a.Cmp(b) == 0 }
func vBigLe(a, b *big.Int) bool    { return a.Cmp(b) <= 0 }
func vBigLt(a, b *big.Int) bool    { return a.Cmp(b) < 0 }
func vAnd(a, b bool) bool          { return a && b }
func vOr(a, b bool) bool           { return a || b }
func vImplies(a, b bool) bool      { return !a || b }
func vIff(a, b bool) bool          { return a == b }
func vNot(a bool) bool             { return !a }

// vRunReplay runs a harness natively and reports the outcome on stdout.
func vRunReplay(name string, h func()) {
	defer func() {
		if r := recover(); r != nil {
			if af, ok := r.(vAssumeFailed); ok {
				fmt.Printf("VERIF-ASSUME-FAIL %s %s\n", name, af.msg)
				return
			}
			fmt.Printf("VERIF-PANIC %s %v\n", name, r)
			return
		}
		fmt.Printf("VERIF-DONE %s failures=%d\n", name, len(vFailures))
	}()
	h()
}

func vTier() int {
	if os.Getenv("VERIF_TIER") == "thorough" {
		return 1
	}
	return 0
}

// vOverride is a no-op natively: replays always run the real callee.
func vOverride(name string, fn interface{}) {}

func vNondetBigRange(name string, lo, hi *big.Int) *big.Int {
	if !vPresent(name) {
		if lo.Sign() <= 0 && hi.Sign() >= 0 {
			return new(big.Int)
		}
		return new(big.Int).Set(lo)
	}
	v := vLookup(name)
	if v.Cmp(lo) < 0 || v.Cmp(hi) > 0 {
		panic(vAssumeFailed{"range " + name})
	}
	return v
}

// vScope runs f; a failed assumption inside abandons only this scope.
func vScope(f func()) {
	defer func() {
		if r := recover(); r != nil {
			if _, ok := r.(vAssumeFailed); ok {
				return
			}
			panic(r)
		}
	}()
	f()
}

// vNative reports whether the harness runs natively (replay) rather than under the symbolic engine.
func vNative() bool { return true }

// vUF is only meaningful under the symbolic engine (contract stubs are not installed natively).
func vUF(name string, args ...*big.Int) *big.Int { panic(vAssumeFailed{"vUF has no native meaning: " + name}) }

var vAddrTable = []string{
	"osmo1v3jhvun9vdjkjan9wgkk7mn995crqvp38ympak",
	"osmo1v3jhvun9vdjkjan9wgkhgam095crqvpj898a40",
	"osmo1damkuetj94skxcm0w4h8gtfsxqcrqvp3jzps3h",
	"osmo1da6xsetj94skxcm0w4h8gtfsxqcrqvpjeu9g6y",
}

// vNondetAddr: an arbitrary account address string (one of four distinct valid addresses)
func vNondetAddr(name string) string {
	v := vLookup("addr:" + name)
	if !vPresent("addr:" + name) {
		return vAddrTable[0]
	}
	i := v.Int64() - 1000000
	if i < 0 || i >= int64(len(vAddrTable)) {
		panic(vAssumeFailed{"addr " + name})
	}
	return vAddrTable[i]
}

// vSortSlice stands in for sort.Slice under the symbolic engine (vOverride("sort.Slice", vSortSlice)): sort.Slice swaps
// through reflection, which the engine does not interpret. An in-place insertion sort driven by the caller's less.
func vSortSlice(x interface{}, less func(i, j int) bool) {
	switch s := x.(type) {
	case []string:
		for i := 1; i < len(s); i++ {
			for j := i; j > 0 && less(j, j-1); j-- {
				s[j], s[j-1] = s[j-1], s[j]
			}
		}
	case []uint64:
		for i := 1; i < len(s); i++ {
			for j := i; j > 0 && less(j, j-1); j-- {
				s[j], s[j-1] = s[j-1], s[j]
			}
		}
	default:
		panic("vSortSlice: unsupported slice type")
	}
}
