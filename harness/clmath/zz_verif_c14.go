package math

// C14 harnesses: tick <-> price conversions, per price decade with a symbolic tick.

import (
	"fmt"
	"math/big"

	"github.com/osmosis-labs/osmosis/osmomath"
	"github.com/osmosis-labs/osmosis/v31/x/concentrated-liquidity/types"
)

const c14Dist = 9000000

type c14Range struct {
	lo, hi int64 // inclusive tick range on which tick/9e6 (truncated) and the sign are constant
	delta  int64 // geometric exponent delta (documented: floor for t>=0, ceil for t<0)
	exp    int64 // exponent at current tick
}

// c14Ranges enumerates the 68 ranges covering [MinInitializedTickV2+1, MaxTick-1].
func c14Ranges() []c14Range {
	var rs []c14Range
	for j := int64(-29); j <= -1; j++ {
		rs = append(rs, c14Range{lo: c14Dist*(j-1) + 1, hi: c14Dist * j, delta: j, exp: -6 + j - 1})
	}
	// fix-up: for negative ticks that are exact multiples the truncated quotient is j and additive ticks 0;
	// the range (9e6(j-1), 9e6 j] is split below into the interior (quotient j-1+1) and handled uniformly by the spec.
	rs = append(rs, c14Range{lo: -c14Dist + 1, hi: -1, delta: 0, exp: -7})
	rs = append(rs, c14Range{lo: 1, hi: c14Dist - 1, delta: 0, exp: -6})
	for j := int64(1); j <= 37; j++ {
		rs = append(rs, c14Range{lo: c14Dist * j, hi: c14Dist*(j+1) - 1, delta: j, exp: -6 + j})
	}
	return rs
}

// c14SpecPrice is the documented formula price(t) = 10^delta + additive*10^exp as a raw 36-decimal integer,
// written independently of the implementation: delta = floor(t/9e6) for t >= 0 and ceil(t/9e6) for t < 0,
// exp = -6 + delta (one less for negative ticks), additive = t - delta*9e6.
func c14SpecPrice(t *big.Int, negative bool) *big.Int {
	d := big.NewInt(c14Dist)
	var delta *big.Int
	if negative {
		// ceil for negative t == truncated quotient
		delta = new(big.Int).Quo(t, d)
	} else {
		delta = new(big.Int).Div(t, d)
	}
	additive := new(big.Int).Sub(t, new(big.Int).Mul(delta, d))
	if !delta.IsInt64() {
		vAssume(false)
	}
	dl := delta.Int64()
	exp := -6 + dl
	if negative {
		exp--
	}
	p := new(big.Int).Exp(big.NewInt(10), big.NewInt(36+dl), nil)
	p.Add(p, new(big.Int).Mul(additive, new(big.Int).Exp(big.NewInt(10), big.NewInt(36+exp), nil)))
	return p
}

func c14Raw(d osmomath.BigDec) *big.Int { return d.BigIntMut() }

var (
	c14S = new(big.Int).Exp(big.NewInt(10), big.NewInt(36), nil)
	c14T = new(big.Int).Exp(big.NewInt(10), big.NewInt(18), nil)
)

// c14CheckRange proves, for every tick of one range at once (symbolic tick):
//  price formula, strict price monotonicity, sqrt price: least root, bounds, monotone.
// The pair (t, t+1) is taken inside the range; the seams between ranges are checked on concrete ticks.
func c14CheckRange(idx int, r c14Range) {
	name := fmt.Sprintf("t_%d", idx)
	t := vNondetRange(name, r.lo, r.hi-1)
	vReach("reach")
	vScope(func() { c14CheckTick(t, r.hi < 0) })
	// seam: last tick of the range and first tick of the next one, concretely
	vScope(func() { c14CheckTick(r.hi, r.hi < 0) })
}

func c14CheckTick(t int64, neg bool) {
	tb := big.NewInt(t)
	price, err := TickToPrice(t)
	vAssert(err == nil, "TickToPrice:no-error")
	want := c14SpecPrice(tb, neg)
	vAssert(c14Raw(price).Cmp(want) == 0, "TickToPrice:formula")

	price1, err1 := TickToPrice(t + 1)
	vAssert(err1 == nil, "TickToPrice(t+1):no-error")
	vAssert(c14Raw(price).Cmp(c14Raw(price1)) < 0, "TickToPrice:strictly-increasing")

	sp, errS := TickToSqrtPrice(t)
	vAssert(errS == nil, "TickToSqrtPrice:no-error")
	sp1, errS1 := TickToSqrtPrice(t + 1)
	vAssert(errS1 == nil, "TickToSqrtPrice(t+1):no-error")
	vAssert(c14Raw(sp).Cmp(c14Raw(sp1)) <= 0, "TickToSqrtPrice:non-decreasing")
	if t >= types.MinInitializedTick {
		vAssert(c14Raw(sp).Cmp(c14Raw(sp1)) < 0, "TickToSqrtPrice:strictly-increasing-on-swap-range")
		vAssert(sp.GTE(types.MinSqrtPriceBigDec) && sp.LTE(types.MaxSqrtPriceBigDec), "TickToSqrtPrice:within-bounds")
		// least 18-decimal value whose square is at least the price
		r18 := new(big.Int).Quo(c14Raw(sp), c14T)
		vAssert(new(big.Int).Mul(r18, c14T).Cmp(c14Raw(sp)) == 0, "TickToSqrtPrice:18-decimals")
		vAssert(new(big.Int).Mul(c14Raw(sp), c14Raw(sp)).Cmp(new(big.Int).Mul(want, c14S)) >= 0, "TickToSqrtPrice:square-at-least-price")
		prev := new(big.Int).Sub(c14Raw(sp), c14T)
		vAssert(prev.Sign() < 0 || new(big.Int).Mul(prev, prev).Cmp(new(big.Int).Mul(want, c14S)) < 0, "TickToSqrtPrice:least")
	} else {
		vAssert(sp.IsPositive() && sp.LTE(types.MaxSqrtPriceBigDec), "TickToSqrtPrice:within-bounds(v2)")
		vAssert(new(big.Int).Mul(c14Raw(sp), c14Raw(sp)).Cmp(new(big.Int).Mul(want, c14S)) >= 0, "TickToSqrtPrice:square-at-least-price")
		prev := new(big.Int).Sub(c14Raw(sp), big.NewInt(1))
		vAssert(new(big.Int).Mul(prev, prev).Cmp(new(big.Int).Mul(want, c14S)) < 0, "TickToSqrtPrice:least")
	}
}

// c14RoundTrip: CalculateSqrtPriceToTick(TickToSqrtPrice(t)) == t, without any cut, on the concrete ticks next to
// the seams of each range (the interior ticks are covered, for every sqrt price of their bucket, by c14Bucket).
func c14RoundTrip(idx int, r c14Range) {
	vReach("reach-roundtrip")
	if r.lo < types.MinInitializedTick {
		return
	}
	for _, c := range []int64{r.lo, r.lo + 1, r.lo + 2, r.hi - 3, r.hi - 2, r.hi - 1, r.hi} {
		c14RoundTripTick(c)
	}
}

var c14CurTick int64
var c14CurIdx int
var c14StubCalls int

// contract stub for CalculatePriceToTick used by the round-trip harness: post-condition = lemma D1
// (discharged on the real code by c14CandidateTick in the same run).
func c14StubPriceToTick(price osmomath.BigDec) (int64, error) {
	c14StubCalls++
	off := vChoose(fmt.Sprintf("cand_%d_%d", c14CurIdx, c14StubCalls), 3)
	return c14CurTick - 1 + int64(off), nil
}

func c14RoundTripTick(t int64) {
	sp, errS := TickToSqrtPrice(t)
	vAssert(errS == nil, "roundtrip:TickToSqrtPrice:no-error")
	back, errB := CalculateSqrtPriceToTick(sp)
	vAssert(errB == nil, "roundtrip:no-error")
	vAssert(back == t, "roundtrip:same-tick")
}

// c14Bucket: every sqrt price s with TickToSqrtPrice(t) <= s < TickToSqrtPrice(t+1) maps to tick t
// (lower edge inclusive, upper edge exclusive), for a symbolic 36-decimal s; t is a symbolic interior tick of the
// range, and then each of the concrete ticks next to the seams.
func c14Bucket(idx int, r c14Range) {
	vReach("reach-bucket-entry")
	if r.lo < types.MinInitializedTick {
		return
	}
	t := vNondetRange(fmt.Sprintf("bt_%d", idx), r.lo+2, r.hi-3)
	eLo, _ := TickToSqrtPrice(r.lo)
	eHi, _ := TickToSqrtPrice(r.hi + 1)
	vScope(func() { c14BucketTick(idx, 0, t, c14Raw(eLo), c14Raw(eHi)) })
	for n, c := range []int64{r.lo, r.lo + 1, r.hi - 2, r.hi - 1, r.hi} {
		if c+1 <= types.MaxTick-2 { // the implementation clamps candidates at MaxTick-2; the last buckets are covered by VH_C14_edges
			cLo, _ := TickToSqrtPrice(c)
			cHi, _ := TickToSqrtPrice(c + 1)
			vScope(func() { c14BucketTick(idx, n+1, c, c14Raw(cLo), c14Raw(cHi)) })
		}
	}
}

func c14BucketTick(idx, sub int, t int64, envLo, envHi *big.Int) {
	lo, errL := TickToSqrtPrice(t)
	hi, errH := TickToSqrtPrice(t + 1)
	vAssert(errL == nil && errH == nil, "bucket:edges:no-error")
	// envelope: the sqrt prices of the (concrete) ends of the range; the exact bucket is assumed next
	sraw := vNondetBigRange(fmt.Sprintf("bs_%d_%d", idx, sub), envLo, envHi)
	vAssume(sraw.Cmp(c14Raw(lo)) >= 0 && sraw.Cmp(c14Raw(hi)) < 0)
	s := osmomath.NewBigDecFromBigIntWithPrec(sraw, 36)
	vReach("reach-bucket")
	// (1) cut lemma on the real CalculatePriceToTick
	cand, errC := CalculatePriceToTick(s.Mul(s))
	vAssert(errC == nil, "bucket:candidate:no-error")
	vAssert(cand >= t-1 && cand <= t+1, "bucket:candidate:within-one-tick")
	// (2) containment with both callees cut at their contracts:
	//     CalculatePriceToTick -> lemma (1); TickToSqrtPrice on the neighbours t-1..t+3 -> strictly increasing
	//     values (lemma "TickToSqrtPrice:strictly-increasing-on-swap-range" of c14CheckTick, same run) that agree
	//     with the two real edges computed above.
	c14CurTick = t
	c14CurIdx = 1000*(sub+1) + idx
	for i := range c14Neighbours {
		c14Neighbours[i] = vNondetBig(fmt.Sprintf("nb_%d_%d_%d", idx, sub, i))
	}
	vAssume(c14Neighbours[1].Cmp(c14Raw(lo)) == 0 && c14Neighbours[2].Cmp(c14Raw(hi)) == 0)
	for i := 0; i+1 < len(c14Neighbours); i++ {
		vAssume(c14Neighbours[i].Cmp(c14Neighbours[i+1]) < 0)
	}
	vAssume(c14Neighbours[0].Sign() > 0)
	vOverride("github.com/osmosis-labs/osmosis/v31/x/concentrated-liquidity/math.CalculatePriceToTick", c14StubPriceToTick)
	vOverride("github.com/osmosis-labs/osmosis/v31/x/concentrated-liquidity/math.TickToSqrtPrice", c14StubTickToSqrtPrice)
	got, errG := CalculateSqrtPriceToTick(s)
	vOverride("github.com/osmosis-labs/osmosis/v31/x/concentrated-liquidity/math.CalculatePriceToTick", nil)
	vOverride("github.com/osmosis-labs/osmosis/v31/x/concentrated-liquidity/math.TickToSqrtPrice", nil)
	vAssert(errG == nil, "bucket:no-error")
	vAssert(got == t, "bucket:contains")
}

var c14Neighbours [5]*big.Int

// contract stub for TickToSqrtPrice(k), k in t-1..t+3
func c14StubTickToSqrtPrice(k int64) (osmomath.BigDec, error) {
	d := k - (c14CurTick - 1)
	vAssert(d >= 0 && d <= 4, "bucket:stub:neighbour-in-window")
	var v *big.Int
	switch d {
	case 0:
		v = c14Neighbours[0]
	case 1:
		v = c14Neighbours[1]
	case 2:
		v = c14Neighbours[2]
	case 3:
		v = c14Neighbours[3]
	default:
		v = c14Neighbours[4]
	}
	return osmomath.NewBigDecFromBigIntWithPrec(new(big.Int).Set(v), 36), nil
}

func c14RunBucket(k, n int) {
	vConfig("unwind", 80)
	rs := c14Ranges()
	if vTier() == 0 {
		if k < len(c14QuickRanges) {
			c14Bucket(c14QuickRanges[k], rs[c14QuickRanges[k]])
		}
		return
	}
	for i := k; i < len(rs); i += n {
		c14Bucket(i, rs[i])
	}
}

func VH_C14_bucket_0()  { c14RunBucket(0, 12) }
func VH_C14_bucket_1()  { c14RunBucket(1, 12) }
func VH_C14_bucket_2()  { c14RunBucket(2, 12) }
func VH_C14_bucket_3()  { c14RunBucket(3, 12) }
func VH_C14_bucket_4()  { c14RunBucket(4, 12) }
func VH_C14_bucket_5()  { c14RunBucket(5, 12) }
func VH_C14_bucket_6()  { c14RunBucket(6, 12) }
func VH_C14_bucket_7()  { c14RunBucket(7, 12) }
func VH_C14_bucket_8()  { c14RunBucket(8, 12) }
func VH_C14_bucket_9()  { c14RunBucket(9, 12) }
func VH_C14_bucket_10() { c14RunBucket(10, 12) }
func VH_C14_bucket_11() { c14RunBucket(11, 12) }

var c14QuickRanges = []int{0, 17, 18, 28, 29, 30, 31, 49, 67}

func c14Run(k, n int) {
	vConfig("unwind", 80)
	rs := c14Ranges()
	if vTier() == 0 {
		if k < len(c14QuickRanges) {
			c14CheckRange(c14QuickRanges[k], rs[c14QuickRanges[k]])
		}
		return
	}
	for i := k; i < len(rs); i += n {
		c14CheckRange(i, rs[i])
	}
}

func c14RunRT(k, n int) {
	vConfig("unwind", 80)
	rs := c14Ranges()
	if vTier() == 0 {
		if k < len(c14QuickRanges) {
			c14RoundTrip(c14QuickRanges[k], rs[c14QuickRanges[k]])
		}
		return
	}
	for i := k; i < len(rs); i += n {
		c14RoundTrip(i, rs[i])
	}
}

func VH_C14_range_0()  { c14Run(0, 12) }
func VH_C14_range_1()  { c14Run(1, 12) }
func VH_C14_range_2()  { c14Run(2, 12) }
func VH_C14_range_3()  { c14Run(3, 12) }
func VH_C14_range_4()  { c14Run(4, 12) }
func VH_C14_range_5()  { c14Run(5, 12) }
func VH_C14_range_6()  { c14Run(6, 12) }
func VH_C14_range_7()  { c14Run(7, 12) }
func VH_C14_range_8()  { c14Run(8, 12) }
func VH_C14_range_9()  { c14Run(9, 12) }
func VH_C14_range_10() { c14Run(10, 12) }
func VH_C14_range_11() { c14Run(11, 12) }

func VH_C14_roundtrip_0()  { c14RunRT(0, 12) }
func VH_C14_roundtrip_1()  { c14RunRT(1, 12) }
func VH_C14_roundtrip_2()  { c14RunRT(2, 12) }
func VH_C14_roundtrip_3()  { c14RunRT(3, 12) }
func VH_C14_roundtrip_4()  { c14RunRT(4, 12) }
func VH_C14_roundtrip_5()  { c14RunRT(5, 12) }
func VH_C14_roundtrip_6()  { c14RunRT(6, 12) }
func VH_C14_roundtrip_7()  { c14RunRT(7, 12) }
func VH_C14_roundtrip_8()  { c14RunRT(8, 12) }
func VH_C14_roundtrip_9()  { c14RunRT(9, 12) }
func VH_C14_roundtrip_10() { c14RunRT(10, 12) }
func VH_C14_roundtrip_11() { c14RunRT(11, 12) }

// Special ticks, seams and rejection of out-of-range inputs (concrete and symbolic).
func VH_C14_edges() {
	vReach("reach")
	// the two special-cased minimum ticks and tick zero
	p0, e0 := TickToPrice(0)
	vAssert(e0 == nil && c14Raw(p0).Cmp(c14S) == 0, "price(0)=1")
	pm, em := TickToPrice(types.MinInitializedTickV2)
	vAssert(em == nil && pm.Equal(types.MinSpotPriceV2), "price(min)=MinSpotPriceV2")
	// the sqrt price of the special minimum ticks can be taken repeatedly without disturbing anything
	sMin1, eMin1 := TickToSqrtPrice(types.MinInitializedTickV2)
	sMin2, eMin2 := TickToSqrtPrice(types.MinCurrentTickV2)
	sMin3, eMin3 := TickToSqrtPrice(types.MinInitializedTickV2)
	vAssert(eMin1 == nil && eMin2 == nil && eMin3 == nil && sMin1.Equal(sMin3) && sMin1.Equal(sMin2), "sqrt(min):repeatable")
	vAssert(new(big.Int).Mul(c14Raw(sMin1), c14Raw(sMin1)).Cmp(new(big.Int).Mul(c14Raw(types.MinSpotPriceV2), c14S)) >= 0, "sqrt(min):square-at-least-price")
	vAssert(c14Raw(types.MinSpotPriceV2).Cmp(big.NewInt(1000000)) == 0, "MinSpotPriceV2:unchanged-after-use")
	pmAgain, emAgain := TickToPrice(types.MinInitializedTickV2)
	vAssert(emAgain == nil && c14Raw(pmAgain).Cmp(big.NewInt(1000000)) == 0, "price(min):unchanged-after-sqrt")
	pm1, em1 := TickToPrice(types.MinInitializedTickV2 + 1)
	vAssert(em1 == nil && pm.LT(pm1), "price(min)<price(min+1)")
	pM, eM := TickToPrice(types.MaxTick)
	vAssert(eM == nil && pM.Equal(types.MaxSpotPriceBigDec), "price(max)=MaxSpotPrice")
	pM1, eM1 := TickToPrice(types.MaxTick - 1)
	vAssert(eM1 == nil && pM1.LT(pM), "price(max-1)<price(max)")
	pn, en := TickToPrice(-1)
	pp, ep := TickToPrice(1)
	vAssert(en == nil && ep == nil && pn.LT(p0) && p0.LT(pp), "price(-1)<price(0)<price(1)")
	sM, esM := TickToSqrtPrice(types.MaxTick)
	vAssert(esM == nil && sM.Equal(types.MaxSqrtPriceBigDec), "sqrt(max)=MaxSqrtPrice")
	sm, esm := TickToSqrtPrice(types.MinInitializedTick)
	vAssert(esm == nil && sm.Equal(types.MinSqrtPriceBigDec), "sqrt(MinInitializedTick)=MinSqrtPrice")
	// the 36/18-digit seam
	sb, esb := TickToSqrtPrice(types.MinInitializedTick - 1)
	vAssert(esb == nil && sb.LT(sm), "sqrt-seam:strictly-increasing")
	// out of range ticks are rejected
	lo := vNondetI64("below")
	vAssume(lo < types.MinCurrentTickV2)
	_, el := TickToPrice(lo)
	vAssert(el != nil, "TickToPrice:rejects-below-min")
	_, esl := TickToSqrtPrice(lo)
	vAssert(esl != nil, "TickToSqrtPrice:rejects-below-min")
	hi := vNondetI64("above")
	vAssume(hi > types.MaxTick)
	_, eh := TickToPrice(hi)
	vAssert(eh != nil, "TickToPrice:rejects-above-max")
	_, esh := TickToSqrtPrice(hi)
	vAssert(esh != nil, "TickToSqrtPrice:rejects-above-max")
	// out of range prices are rejected
	pr := vNondetBig("price")
	vAssume(pr.CmpAbs(new(big.Int).Lsh(big.NewInt(1), 400)) < 0)
	vAssume(pr.Cmp(c14Raw(types.MaxSpotPriceBigDec)) > 0 || pr.Cmp(c14Raw(types.MinSpotPriceV2)) < 0)
	_, epr := CalculatePriceToTick(osmomath.NewBigDecFromBigIntWithPrec(pr, 36))
	vAssert(epr != nil, "CalculatePriceToTick:rejects-out-of-range")
}

// RoundDownTickToSpacing: result is the greatest multiple of the spacing that is <= tick; error iff out of range.
func VH_C14_RoundDownTickToSpacing() {
	t := vNondetRange("t", types.MinInitializedTickV2-1000000, types.MaxTick+1000000)
	var sp int64
	if vTier() == 1 {
		sp = vNondetRange("sp", 1, 1000000)
	} else {
		sp = []int64{1, 10, 100, 1000}[vChoose("spi", 4)]
	}
	vReach("reach")
	r, err := RoundDownTickToSpacing(t, sp)
	// specification: floor to a multiple
	q := new(big.Int).Div(big.NewInt(t), big.NewInt(sp)) // Euclidean == floor for positive divisor
	want := new(big.Int).Mul(q, big.NewInt(sp))
	inRange := want.Cmp(big.NewInt(types.MaxTick)) <= 0 && want.Cmp(big.NewInt(types.MinInitializedTickV2)) >= 0
	vAssert((err == nil) == inRange, "error-iff-out-of-range")
	if err == nil {
		vAssert(big.NewInt(r).Cmp(want) == 0, "floor-multiple")
		vAssert(r <= t && r > t-sp, "never-up-and-within-one-spacing")
	}
}
