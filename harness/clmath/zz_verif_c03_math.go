package math

// C03 / C01 kernel lemmas on x/concentrated-liquidity/math: every rounding favours the pool, for all
// liquidities and sqrt prices within the supported bounds.
//   amounts charged (roundUp=true)  >= exact curve amount, and whole units
//   amounts paid    (roundUp=false) <= exact curve amount
//   next sqrt price after token0 in/out is never below the exact one (price moves less down / more up),
//   next sqrt price after token1 in/out is never above the exact one

import (
	"math/big"

	"github.com/osmosis-labs/osmosis/osmomath"
)

var (
	c03S = new(big.Int).Exp(big.NewInt(10), big.NewInt(36), nil)
	c03T = new(big.Int).Exp(big.NewInt(10), big.NewInt(18), nil)
	// supported sqrt price range (36-decimal raw): [10^-15, 10^19]
	c03MinSqrt = new(big.Int).Exp(big.NewInt(10), big.NewInt(21), nil)
	c03MaxSqrt = new(big.Int).Exp(big.NewInt(10), big.NewInt(55), nil)
)

func c03SqrtPrice(name string) *big.Int { return vNondetBigRange(name, c03MinSqrt, c03MaxSqrt) }

// liquidity as an 18-decimal Dec: (0, 2^200)
func c03Liq(name string) *big.Int {
	return vNondetBigRange(name, big.NewInt(1), new(big.Int).Lsh(big.NewInt(1), 200))
}

func c03BD(x *big.Int) osmomath.BigDec { return osmomath.NewBigDecFromBigIntWithPrec(new(big.Int).Set(x), 36) }
func c03Dec(x *big.Int) osmomath.Dec   { return osmomath.NewDecFromBigIntWithPrec(new(big.Int).Set(x), 18) }
func c03Raw(d osmomath.BigDec) *big.Int { return d.BigIntMut() }

func VH_C03_CalcAmount0Delta() {
	l, a, b := c03Liq("liq"), c03SqrtPrice("sqrtA"), c03SqrtPrice("sqrtB")
	vAssume(a.Cmp(b) < 0)
	vReach("reach")
	// exact amount (token units) = l*(b-a)*S / (T*a*b); compare cross-multiplied
	num := new(big.Int).Mul(new(big.Int).Mul(l, new(big.Int).Sub(b, a)), new(big.Int).Mul(c03S, c03S))
	den := new(big.Int).Mul(c03T, new(big.Int).Mul(a, b))
	up := c03Raw(CalcAmount0Delta(c03Dec(l), c03BD(a), c03BD(b), true))
	vAssert(new(big.Int).Mul(up, den).Cmp(num) >= 0, "charged:at-least-exact")
	vAssert(new(big.Int).Rem(up, c03S).Sign() == 0, "charged:whole-units")
	down := c03Raw(CalcAmount0Delta(c03Dec(l), c03BD(a), c03BD(b), false))
	vAssert(new(big.Int).Mul(down, den).Cmp(num) <= 0, "paid:at-most-exact")
	vAssert(down.Sign() >= 0, "paid:non-negative")
	vAssert(down.Cmp(up) <= 0, "paid-never-exceeds-charged")
	// argument order does not matter
	up2 := c03Raw(CalcAmount0Delta(c03Dec(l), c03BD(b), c03BD(a), true))
	vAssert(up2.Cmp(up) == 0, "symmetric-in-the-two-prices")
}

func VH_C03_CalcAmount1Delta() {
	l, a, b := c03Liq("liq"), c03SqrtPrice("sqrtA"), c03SqrtPrice("sqrtB")
	vReach("reach")
	diff := new(big.Int).Abs(new(big.Int).Sub(b, a))
	num := new(big.Int).Mul(l, diff) // exact amount * S * T
	up := c03Raw(CalcAmount1Delta(c03Dec(l), c03BD(a), c03BD(b), true))
	vAssert(new(big.Int).Mul(up, c03T).Cmp(num) >= 0, "charged:at-least-exact")
	vAssert(new(big.Int).Rem(up, c03S).Sign() == 0, "charged:whole-units")
	vAssert(new(big.Int).Mul(new(big.Int).Sub(up, c03S), c03T).Cmp(num) < 0, "charged:less-than-one-unit-above-exact")
	down := c03Raw(CalcAmount1Delta(c03Dec(l), c03BD(a), c03BD(b), false))
	vAssert(new(big.Int).Mul(down, c03T).Cmp(num) <= 0, "paid:at-most-exact")
	vAssert(new(big.Int).Mul(new(big.Int).Add(down, big.NewInt(1)), c03T).Cmp(num) > 0, "paid:within-one-ulp-of-exact")
	vAssert(down.Cmp(up) <= 0, "paid-never-exceeds-charged")
}

// token0 in: sqrt price moves down; the returned price is never below exact L*c/(L + x*c) and never above c
func VH_C03_NextSqrtPrice_Amount0In() {
	c := c03SqrtPrice("cur")
	L := vNondetBigRange("liq36", c03T, new(big.Int).Lsh(big.NewInt(1), 250)) // liquidity as BigDec raw, >= 10^-18
	x := vNondetBigRange("amount0", big.NewInt(0), new(big.Int).Lsh(big.NewInt(1), 250))
	vReach("reach")
	n := c03Raw(GetNextSqrtPriceFromAmount0InRoundingUp(c03BD(c), c03BD(L), c03BD(x)))
	// exact: n = L*c / (L + x*c/S)  <=>  n*(L*S + x*c) = L*c*S
	lhs := new(big.Int).Mul(n, new(big.Int).Add(new(big.Int).Mul(L, c03S), new(big.Int).Mul(x, c)))
	rhs := new(big.Int).Mul(new(big.Int).Mul(L, c), c03S)
	vAssert(lhs.Cmp(rhs) >= 0, "not-below-exact")
	vAssert(x.Sign() != 0 || n.Cmp(c) == 0, "zero-amount:unchanged")
}

// token0 out: sqrt price moves up; the returned price is never below exact L*c/(L - x*c)
func VH_C03_NextSqrtPrice_Amount0Out() {
	c := c03SqrtPrice("cur")
	L := vNondetBigRange("liq36", c03T, new(big.Int).Lsh(big.NewInt(1), 250))
	x := vNondetBigRange("amount0", big.NewInt(0), new(big.Int).Lsh(big.NewInt(1), 200)) // Dec raw (18 decimals)
	// the pool must hold more token0 in range than is taken out: x*c < L (exact), with room for the rounding
	prod := new(big.Int).Mul(x, c) // x/T * c/S scaled by T*S
	vAssume(new(big.Int).Add(prod, new(big.Int).Mul(c03T, big.NewInt(2))).Cmp(new(big.Int).Mul(L, c03T)) < 0)
	vReach("reach")
	n := c03Raw(GetNextSqrtPriceFromAmount0OutRoundingUp(c03BD(c), c03BD(L), c03Dec(x)))
	// exact: n*(L - x*c) = L*c, with L,c,n at 36 decimals and x at 18: n*(L*T*S - x*c*S)/(T*S*S) ... cross-multiplied:
	// n * (L*T - x*c/S*... ) keep everything integral: multiply through by T*S
	lhs := new(big.Int).Mul(n, new(big.Int).Sub(new(big.Int).Mul(new(big.Int).Mul(L, c03T), c03S), new(big.Int).Mul(prod, big.NewInt(1))))
	_ = lhs
	// n/S >= (L/S * c/S) / (L/S - x/T * c/S)   <=>   n * (L*T*S - x*c) >= L*c*T*S   (all terms positive)
	left := new(big.Int).Mul(n, new(big.Int).Sub(new(big.Int).Mul(new(big.Int).Mul(L, c03T), c03S), prod))
	right := new(big.Int).Mul(new(big.Int).Mul(new(big.Int).Mul(L, c), c03T), c03S)
	vAssert(left.Cmp(right) >= 0, "not-below-exact")
	vAssert(n.Cmp(c) >= 0, "moves-up")
	vAssert(x.Sign() != 0 || n.Cmp(c) == 0, "zero-amount:unchanged")
}

// token1 in: sqrt price moves up by at most amount/liquidity; token1 out: moves down by at least amount/liquidity
func VH_C03_NextSqrtPrice_Amount1() {
	c := c03SqrtPrice("cur")
	l := c03Liq("liq")
	x := vNondetBigRange("amount1", big.NewInt(0), new(big.Int).Lsh(big.NewInt(1), 250)) // BigDec raw
	vReach("reach")
	in := c03Raw(GetNextSqrtPriceFromAmount1InRoundingDown(c03BD(c), c03Dec(l), c03BD(x)))
	// exact: c + x/l ; (in - c) * l <= x * T
	vAssert(in.Cmp(c) >= 0, "in:moves-up")
	vAssert(new(big.Int).Mul(new(big.Int).Sub(in, c), l).Cmp(new(big.Int).Mul(x, c03T)) <= 0, "in:not-above-exact")
	vAssert(new(big.Int).Mul(new(big.Int).Add(new(big.Int).Sub(in, c), big.NewInt(1)), l).Cmp(new(big.Int).Mul(x, c03T)) > 0, "in:within-one-ulp")
	out := c03Raw(GetNextSqrtPriceFromAmount1OutRoundingDown(c03BD(c), c03Dec(l), c03BD(x)))
	vAssert(out.Cmp(c) <= 0, "out:moves-down")
	vAssert(new(big.Int).Mul(new(big.Int).Sub(c, out), l).Cmp(new(big.Int).Mul(x, c03T)) >= 0, "out:not-above-exact")
	vAssert(new(big.Int).Mul(new(big.Int).Sub(new(big.Int).Sub(c, out), big.NewInt(1)), l).Cmp(new(big.Int).Mul(x, c03T)) < 0, "out:within-one-ulp")
}
