package keeper

// C20 harnesses (token factory): every admin-only message from a sender that is not the current admin fails and
// changes nothing; after the admin is renounced nobody can use the powers; mint / burn / force-transfer never
// reach into protected module accounts.

import (
	"context"
	"strings"

	storetypes "cosmossdk.io/store/types"
	"github.com/cosmos/cosmos-sdk/codec"
	codectypes "github.com/cosmos/cosmos-sdk/codec/types"
	sdk "github.com/cosmos/cosmos-sdk/types"
	authtypes "github.com/cosmos/cosmos-sdk/x/auth/types"
	banktypes "github.com/cosmos/cosmos-sdk/x/bank/types"
	paramtypes "github.com/cosmos/cosmos-sdk/x/params/types"

	"github.com/osmosis-labs/osmosis/osmomath"
	"github.com/osmosis-labs/osmosis/v31/x/tokenfactory/types"
)

// model bank: records every mutating call
type c20Bank struct{ calls *[]string }

func (b c20Bank) GetDenomMetaData(ctx context.Context, denom string) (banktypes.Metadata, bool) {
	return banktypes.Metadata{Base: denom}, true
}
func (b c20Bank) SetDenomMetaData(ctx context.Context, m banktypes.Metadata) {
	*b.calls = append(*b.calls, "SetDenomMetaData")
}
func (b c20Bank) HasSupply(ctx context.Context, denom string) bool { return denom == c20DenomStr }
func (b c20Bank) SendCoinsFromModuleToAccount(ctx context.Context, senderModule string, recipientAddr sdk.AccAddress, amt sdk.Coins) error {
	*b.calls = append(*b.calls, "SendCoinsFromModuleToAccount:"+string(recipientAddr))
	return nil
}
func (b c20Bank) SendCoinsFromAccountToModule(ctx context.Context, senderAddr sdk.AccAddress, recipientModule string, amt sdk.Coins) error {
	*b.calls = append(*b.calls, "SendCoinsFromAccountToModule:"+string(senderAddr))
	return nil
}
func (b c20Bank) MintCoins(ctx context.Context, moduleName string, amt sdk.Coins) error {
	*b.calls = append(*b.calls, "MintCoins")
	return nil
}
func (b c20Bank) BurnCoins(ctx context.Context, moduleName string, amt sdk.Coins) error {
	*b.calls = append(*b.calls, "BurnCoins")
	return nil
}
func (b c20Bank) SendCoins(ctx context.Context, fromAddr sdk.AccAddress, toAddr sdk.AccAddress, amt sdk.Coins) error {
	*b.calls = append(*b.calls, "SendCoins:"+string(fromAddr)+">"+string(toAddr))
	return nil
}
func (b c20Bank) HasBalance(ctx context.Context, addr sdk.AccAddress, amt sdk.Coin) bool { return true }

type c20Accounts struct{}

func (c20Accounts) GetAccount(context.Context, sdk.AccAddress) sdk.AccountI { return nil }
func (c20Accounts) GetModuleAccount(ctx context.Context, moduleName string) sdk.ModuleAccountI {
	return authtypes.NewEmptyModuleAccount(moduleName)
}

const c20Creator = "osmo1damkuetj94skxcm0w4h8gtfsxqcrqvp3jzps3h"
const c20DenomStr = "factory/" + c20Creator + "/token"

type c20World struct {
	k     Keeper
	ctx   sdk.Context
	srv   types.MsgServer
	calls *[]string
	admin string
}

// bech32 decoding is cut at its interface (an injective map from address strings to account bytes)
func c20AddrStub(address string) (sdk.AccAddress, error) {
	if address == "" {
		return nil, types.ErrUnauthorized
	}
	return sdk.AccAddress("acct:" + address), nil
}

func c20Env() {
	if vNative() {
		sdk.GetConfig().SetBech32PrefixForAccount("osmo", "osmopub")
	}
	vOverride("github.com/cosmos/cosmos-sdk/types.AccAddressFromBech32", c20AddrStub)
}

func c20Setup(renounced bool) *c20World {
	c20Env()
	w := &c20World{}
	key := storetypes.NewKVStoreKey(types.StoreKey)
	ms := vNewMS(types.StoreKey)
	w.ctx = vNewCtx(ms, vTimeFromNanos(1000), 10)
	calls := []string{}
	w.calls = &calls
	w.k = Keeper{storeKey: key, bankKeeper: c20Bank{&calls}, accountKeeper: c20Accounts{},
		permAddrs: map[string]authtypes.PermissionsForAddress{}, permAddrMap: map[string]bool{}}
	if vNative() {
		// natively (replay) the real x/params subspace holds the (fee-less) parameters
		w.k.paramSpace = paramtypes.NewSubspace(codec.NewProtoCodec(codectypes.NewInterfaceRegistry()), codec.NewLegacyAmino(),
			storetypes.NewKVStoreKey("params"), storetypes.NewTransientStoreKey("transient_params"), "tokenfactory").WithKeyTable(types.ParamKeyTable())
		w.k.SetParams(w.ctx, types.Params{})
	}
	w.srv = NewMsgServerImpl(w.k)
	w.admin = vNondetAddr("admin")
	if renounced {
		w.admin = ""
	}
	if err := w.k.setAuthorityMetadata(w.ctx, c20DenomStr, types.DenomAuthorityMetadata{Admin: w.admin}); err != nil {
		vAssume(false)
	}
	return w
}

func (w *c20World) unchanged(tag string) {
	md, err := w.k.GetAuthorityMetadata(w.ctx, c20DenomStr)
	vAssert(err == nil && md.Admin == w.admin, tag+":authority-record-unchanged")
	vAssert(w.k.GetBeforeSendHook(w.ctx, c20DenomStr) == "", tag+":before-send-hook-unchanged")
	vAssert(len(*w.calls) == 0, tag+":no-bank-mutation")
}

// every admin-only handler, called by a sender different from the admin
func c20NonAdmin(renounced bool) {
	w := c20Setup(renounced)
	sender := vNondetAddr("sender")
	vAssume(sender != w.admin)
	other := vNondetAddr("other")
	coin := sdk.NewCoin(c20DenomStr, osmomath.NewInt(5))
	vReach("reach")
	_, e1 := w.srv.Mint(w.ctx, &types.MsgMint{Sender: sender, Amount: coin, MintToAddress: other})
	vAssert(e1 != nil, "Mint:rejected")
	w.unchanged("Mint")
	_, e2 := w.srv.Burn(w.ctx, &types.MsgBurn{Sender: sender, Amount: coin, BurnFromAddress: other})
	vAssert(e2 != nil, "Burn:rejected")
	w.unchanged("Burn")
	_, e3 := w.srv.ForceTransfer(w.ctx, &types.MsgForceTransfer{Sender: sender, Amount: coin, TransferFromAddress: other, TransferToAddress: sender})
	vAssert(e3 != nil, "ForceTransfer:rejected")
	w.unchanged("ForceTransfer")
	_, e4 := w.srv.ChangeAdmin(w.ctx, &types.MsgChangeAdmin{Sender: sender, Denom: c20DenomStr, NewAdmin: sender})
	vAssert(e4 != nil, "ChangeAdmin:rejected")
	w.unchanged("ChangeAdmin")
	_, e5 := w.srv.SetBeforeSendHook(w.ctx, &types.MsgSetBeforeSendHook{Sender: sender, Denom: c20DenomStr, CosmwasmAddress: other})
	vAssert(e5 != nil, "SetBeforeSendHook:rejected")
	w.unchanged("SetBeforeSendHook")
	md := banktypes.Metadata{Base: c20DenomStr, Display: c20DenomStr, Name: "token", Symbol: "TKN",
		DenomUnits: []*banktypes.DenomUnit{{Denom: c20DenomStr, Exponent: 0}}}
	_, e6 := w.srv.SetDenomMetadata(w.ctx, &types.MsgSetDenomMetadata{Sender: sender, Metadata: md})
	vAssert(e6 != nil, "SetDenomMetadata:rejected")
	w.unchanged("SetDenomMetadata")
}

func VH_C20_tf_non_admin_rejected()          { c20NonAdmin(false) }
func VH_C20_tf_renounced_admin_rejects_all() { c20NonAdmin(true) }

// creating a denom always lands in the sender's own namespace
func VH_C20_tf_namespace() {
	c20Env()
	vReach("reach")
	d1, err1 := types.GetTokenDenom(c20Creator, "abc")
	vAssert(err1 == nil && d1 == "factory/"+c20Creator+"/abc", "denom-is-factory/creator/subdenom")
	_, err3 := types.GetTokenDenom(c20Creator+"/x", "abc")
	vAssert(err3 != nil, "creator-with-slash-rejected")
}

func c20ParamsStub(k Keeper, ctx sdk.Context) types.Params { return types.Params{} }

// Once a denom exists - in particular after its admin has been renounced - nobody can create it again
// (re-creating it would hand the admin powers to the creator).
func VH_C20_tf_existing_denom_cannot_be_recreated() {
	w := c20Setup(vNondetBool("renounced"))
	vOverride("(github.com/osmosis-labs/osmosis/v31/x/tokenfactory/keeper.Keeper).GetParams", c20ParamsStub)
	vReach("reach")
	var err error
	p := vPanics(func() {
		_, err = w.srv.CreateDenom(w.ctx, &types.MsgCreateDenom{Sender: c20Creator, Subdenom: "token"})
	})
	vAssert(p || err != nil, "CreateDenom:rejected-for-existing-denom")
	md, gerr := w.k.GetAuthorityMetadata(w.ctx, c20DenomStr)
	vAssert(gerr == nil && md.Admin == w.admin, "authority-record-unchanged")
	vAssert(len(*w.calls) == 0, "no-bank-mutation")
}

// ---------------------------------------------------------------- module accounts are out of an admin's reach

// the lockup module account's address string: natively its real bech32 form; under the engine a stand-in that the
// decoding stub maps (case-insensitively, as bech32 does for single-case strings) to the module account's bytes
func c20ModuleAddrString() string {
	if vNative() {
		return sdk.AccAddress(authtypes.NewModuleAddress("lockup")).String()
	}
	return "osmo1lockupmoduleaccountstandin"
}

func c20AddrStubModules(address string) (sdk.AccAddress, error) {
	if address == "" {
		return nil, types.ErrUnauthorized
	}
	if strings.ToLower(address) == "osmo1lockupmoduleaccountstandin" {
		return sdk.AccAddress(authtypes.NewModuleAddress("lockup")), nil
	}
	return sdk.AccAddress("acct:" + address), nil
}

func c20AddrStringModules(aa sdk.AccAddress) string {
	if strings.HasPrefix(string(aa), "acct:") {
		return string(aa)[5:]
	}
	return "osmo1lockupmoduleaccountstandin"
}

// even the denom's admin cannot force-transfer out of or into a module account, however its address is spelled
func VH_C20_tf_admin_cannot_reach_module_accounts() {
	w := c20Setup(false)
	vOverride("github.com/cosmos/cosmos-sdk/types.AccAddressFromBech32", c20AddrStubModules)
	vOverride("(github.com/cosmos/cosmos-sdk/types.AccAddress).String", c20AddrStringModules)
	mod := c20ModuleAddrString()
	w.k.permAddrs["lockup"] = authtypes.NewPermissionsForAddress("lockup", nil)
	w.k.permAddrMap[mod] = true
	w.srv = NewMsgServerImpl(w.k)
	spelled := mod
	if vChoose("spelling", 2) == 1 {
		spelled = strings.ToUpper(mod)
	}
	user := vAddrTable[2]
	from, to := spelled, user
	if vChoose("direction", 2) == 1 {
		from, to = user, spelled
	}
	amt := osmomath.NewIntFromBigInt(vNondetBigRange("amount", osmomath.NewInt(1).BigInt(), osmomath.NewInt(1000000000000).BigInt()))
	vReach("reach")
	_, err := w.srv.ForceTransfer(w.ctx, &types.MsgForceTransfer{Sender: w.admin, Amount: sdk.NewCoin(c20DenomStr, amt), TransferFromAddress: from, TransferToAddress: to})
	vAssert(err != nil, "ForceTransfer:module-account-refused")
	vAssert(len(*w.calls) == 0, "ForceTransfer:no-bank-mutation")
	// between two ordinary accounts the admin's transfer goes through (the guard is not a blanket refusal)
	_, err2 := w.srv.ForceTransfer(w.ctx, &types.MsgForceTransfer{Sender: w.admin, Amount: sdk.NewCoin(c20DenomStr, amt), TransferFromAddress: vAddrTable[1], TransferToAddress: user})
	vAssert(err2 == nil && len(*w.calls) == 1, "ForceTransfer:ordinary-accounts-allowed")
}
