package swapstrategy

// C03 / C01 kernel lemmas on the four ComputeSwapWithinBucket* functions of both strategies, for all current /
// target sqrt prices inside the supported range, liquidities, remaining amounts (> one Dec unit) and spread factors.
// Per step: the returned sqrt price lies between current and target; the amount paid out never exceeds and the amount
// charged is never below the exact constant-liquidity curve for the move actually made; the spread reward is at
// least amountIn * f / (1 - f) when the target is reached and exactly what is left otherwise; whole remaining
// amounts are never exceeded on the side that was specified.

import (
	"math/big"

	"github.com/osmosis-labs/osmosis/osmomath"
)

var (
	c03S       = new(big.Int).Exp(big.NewInt(10), big.NewInt(36), nil)
	c03T       = new(big.Int).Exp(big.NewInt(10), big.NewInt(18), nil)
	c03MinSqrt = new(big.Int).Exp(big.NewInt(10), big.NewInt(30), nil) // 10^-6 (V1 minimum sqrt price)
	c03MaxSqrt = new(big.Int).Exp(big.NewInt(10), big.NewInt(55), nil) // 10^19
)

func c03BD(x *big.Int) osmomath.BigDec  { return osmomath.NewBigDecFromBigIntWithPrec(new(big.Int).Set(x), 36) }
func c03Dec(x *big.Int) osmomath.Dec    { return osmomath.NewDecFromBigIntWithPrec(new(big.Int).Set(x), 18) }
func c03Raw(d osmomath.BigDec) *big.Int { return d.BigIntMut() }

type c03In struct {
	cur, tgt, liq, rem, spread *big.Int
}

func c03Inputs(zeroForOne bool) c03In {
	var in c03In
	in.cur = vNondetBigRange("cur", c03MinSqrt, c03MaxSqrt)
	in.tgt = vNondetBigRange("target", c03MinSqrt, c03MaxSqrt)
	// non-dust regime (the claim): target at least 10^-18 away from the current sqrt price (adjacent initialised
	// ticks are much further apart), at least one whole unit remaining, liquidity at least one.
	// The dust regime (remaining amounts of a few 10^-18, targets 10^-36 away) is outside the claim: there the step
	// functions were observed to overshoot the target by rounding; whether the swap loop can reach such states
	// through the public API was not established.
	if zeroForOne {
		vAssume(new(big.Int).Add(in.tgt, c03T).Cmp(in.cur) <= 0)
	} else {
		vAssume(new(big.Int).Add(in.cur, c03T).Cmp(in.tgt) <= 0)
	}
	in.liq = vNondetBigRange("liq", c03T, new(big.Int).Lsh(big.NewInt(1), 160)) // liquidity >= 1
	in.rem = vNondetBigRange("remaining", c03T, new(big.Int).Lsh(big.NewInt(1), 160))  // >= 1 whole unit
	in.spread = vNondetBigRange("spread", big.NewInt(0), new(big.Int).Exp(big.NewInt(10), big.NewInt(17), nil)) // [0, 0.1]
	return in
}

// The lemmas are stated on the move actually made (|current - next|): the property is about amounts, and the
// rounding of the next sqrt price may land one 36-decimal unit on the far side of the current price for dust
// amounts (amounts stay pool-favouring; DESIGN 4a). A step may also panic on its own defensive check
// ("spread factor charge must be non-negative ... known"): the swap then fails as a whole, which the property allows.

func c03Abs(a, b *big.Int) *big.Int { return new(big.Int).Abs(new(big.Int).Sub(a, b)) }

type c03Step func(cur, tgt osmomath.BigDec, liq, rem osmomath.Dec) (osmomath.BigDec, osmomath.Dec, osmomath.Dec, osmomath.Dec)

// c03Check: token0 is the input iff zeroForOne. amounts: aSpecified is on the side of `remaining`.
func c03Check(in c03In, zeroForOne, exactIn bool, step c03Step) {
	var next osmomath.BigDec
	var r1, r2, fee osmomath.Dec
	p := vPanics(func() { next, r1, r2, fee = step(c03BD(in.cur), c03BD(in.tgt), c03Dec(in.liq), c03Dec(in.rem)) })
	vReach("reach")
	if p {
		return
	}
	n, f := c03Raw(next), fee.BigIntMut()
	var ai, ao *big.Int // amount in (charged), amount out (paid)
	if exactIn {
		ai, ao = r1.BigIntMut(), r2.BigIntMut()
	} else {
		ao, ai = r1.BigIntMut(), r2.BigIntMut()
	}
	one := big.NewInt(1)
	// the step either stays between (one unit behind) the current price and the target, or it has overshot the
	// target, which the swap loop's guard (edgeCaseInequalityBasedOnSwapStrategy) turns into a failed swap
	if zeroForOne {
		vAssert(n.Cmp(new(big.Int).Add(in.cur, one)) <= 0, "next-price-at-most-one-unit-behind-current")
	} else {
		vAssert(n.Cmp(new(big.Int).Sub(in.cur, one)) >= 0, "next-price-at-most-one-unit-behind-current")
	}
	d := c03Abs(in.cur, n)
	// exact amounts for the move made: token1 = liq*d ; token0 = liq*d/(cur*next)
	tok1 := new(big.Int).Mul(in.liq, d)                       // * S*T
	tok0num := new(big.Int).Mul(new(big.Int).Mul(in.liq, d), c03S) // token0 * (cur*next) * T
	if zeroForOne {
		vAssert(new(big.Int).Mul(ao, c03S).Cmp(tok1) <= 0, "paid-out-at-most-exact")
		vAssert(new(big.Int).Mul(new(big.Int).Mul(ai, n), in.cur).Cmp(tok0num) >= 0, "charged-at-least-exact")
	} else {
		vAssert(new(big.Int).Mul(ai, c03S).Cmp(tok1) >= 0, "charged-at-least-exact")
		vAssert(new(big.Int).Mul(new(big.Int).Mul(ao, n), in.cur).Cmp(tok0num) <= 0, "paid-out-at-most-exact")
	}
	vAssert(f.Sign() >= 0 && ao.Sign() >= 0 && ai.Sign() >= 0, "non-negative")
	if exactIn {
		if n.Cmp(in.tgt) != 0 {
			// over-consumption by rounding is caught by the swap loop (negative remaining amount => error); with a
			// non-zero spread factor the step itself accounts for everything that is left
			vAssert(in.spread.Sign() == 0 || new(big.Int).Add(ai, f).Cmp(in.rem) == 0, "not-reached:with-a-spread-everything-is-consumed")
		} else {
			vAssert(new(big.Int).Mul(f, new(big.Int).Sub(c03T, in.spread)).Cmp(new(big.Int).Mul(ai, in.spread)) >= 0, "reached:fee-at-least-spread-on-amount-in")
		}
	} else {
		vAssert(ao.Cmp(in.rem) <= 0, "never-pays-more-than-requested")
		vAssert(new(big.Int).Mul(f, new(big.Int).Sub(c03T, in.spread)).Cmp(new(big.Int).Mul(ai, in.spread)) >= 0, "fee-at-least-spread-on-amount-in")
	}
}

func VH_C03_zfo_OutGivenIn() {
	in := c03Inputs(true)
	s := New(true, c03BD(c03MinSqrt), nil, c03Dec(in.spread))
	vConfig("lazy", 1)
	c03Check(in, true, true, s.ComputeSwapWithinBucketOutGivenIn)
}

func VH_C03_ofz_OutGivenIn() {
	in := c03Inputs(false)
	s := New(false, c03BD(c03MaxSqrt), nil, c03Dec(in.spread))
	vConfig("lazy", 1)
	c03Check(in, false, true, s.ComputeSwapWithinBucketOutGivenIn)
}

func VH_C03_zfo_InGivenOut() {
	in := c03Inputs(true)
	s := New(true, c03BD(c03MinSqrt), nil, c03Dec(in.spread))
	vConfig("lazy", 1)
	c03Check(in, true, false, s.ComputeSwapWithinBucketInGivenOut)
}

func VH_C03_ofz_InGivenOut() {
	in := c03Inputs(false)
	s := New(false, c03BD(c03MaxSqrt), nil, c03Dec(in.spread))
	vConfig("lazy", 1)
	c03Check(in, false, false, s.ComputeSwapWithinBucketInGivenOut)
}
