package swapstrategy

// C03 / C01 kernel lemmas on the four ComputeSwapWithinBucket* functions of both strategies, for all current /
// target sqrt prices inside the supported range, liquidities, remaining amounts (> one Dec unit) and spread factors.
// Per step: the returned sqrt price lies between current and target; the amount paid out never exceeds and the amount
// charged is never below the exact constant-liquidity curve for the move actually made; the spread reward is at
// least amountIn * f / (1 - f) when the target is reached and exactly what is left otherwise; whole remaining
// amounts are never exceeded on the side that was specified.

import (
	"math/big"

	"github.com/osmosis-labs/osmosis/osmomath"
)

var (
	c03S       = new(big.Int).Exp(big.NewInt(10), big.NewInt(36), nil)
	c03T       = new(big.Int).Exp(big.NewInt(10), big.NewInt(18), nil)
	c03MinSqrt = new(big.Int).Exp(big.NewInt(10), big.NewInt(30), nil) // 10^-6 (V1 minimum sqrt price)
	c03MaxSqrt = new(big.Int).Exp(big.NewInt(10), big.NewInt(55), nil) // 10^19
)

func c03BD(x *big.Int) osmomath.BigDec  { return osmomath.NewBigDecFromBigIntWithPrec(new(big.Int).Set(x), 36) }
func c03Dec(x *big.Int) osmomath.Dec    { return osmomath.NewDecFromBigIntWithPrec(new(big.Int).Set(x), 18) }
func c03Raw(d osmomath.BigDec) *big.Int { return d.BigIntMut() }

type c03In struct {
	cur, tgt, liq, rem, spread *big.Int
}

func c03Inputs(zeroForOne bool) c03In {
	var in c03In
	in.cur = vNondetBigRange("cur", c03MinSqrt, c03MaxSqrt)
	in.tgt = vNondetBigRange("target", c03MinSqrt, c03MaxSqrt)
	if zeroForOne {
		vAssume(in.tgt.Cmp(in.cur) < 0)
	} else {
		vAssume(in.tgt.Cmp(in.cur) > 0)
	}
	in.liq = vNondetBigRange("liq", c03T, new(big.Int).Lsh(big.NewInt(1), 160))   // liquidity >= 1
	in.rem = vNondetBigRange("remaining", big.NewInt(2), new(big.Int).Lsh(big.NewInt(1), 160)) // > 10^-18
	in.spread = vNondetBigRange("spread", big.NewInt(0), new(big.Int).Exp(big.NewInt(10), big.NewInt(17), nil)) // [0, 0.1]
	return in
}

// exact-in, zero for one: token0 in, token1 out, price moves down
func VH_C03_zfo_OutGivenIn() {
	in := c03Inputs(true)
	s := &zeroForOneStrategy{sqrtPriceLimit: c03BD(c03MinSqrt), spreadFactor: c03Dec(in.spread)}
	vConfig("lazy", 1)
	vReach("reach")
	next, amtIn, amtOut, fee := s.ComputeSwapWithinBucketOutGivenIn(c03BD(in.cur), c03BD(in.tgt), c03Dec(in.liq), c03Dec(in.rem))
	n, ai, ao, f := c03Raw(next), amtIn.BigIntMut(), amtOut.BigIntMut(), fee.BigIntMut()
	vAssert(n.Cmp(in.tgt) >= 0 && n.Cmp(in.cur) <= 0, "next-price-between-target-and-current")
	// out (token1, 18 decimals) <= liq * (cur - next)
	vAssert(new(big.Int).Mul(ao, c03S).Cmp(new(big.Int).Mul(in.liq, new(big.Int).Sub(in.cur, n))) <= 0, "paid-out-at-most-exact")
	// in (token0) >= liq * (cur - next) / (cur * next)
	vAssert(new(big.Int).Mul(new(big.Int).Mul(ai, n), in.cur).Cmp(new(big.Int).Mul(new(big.Int).Mul(in.liq, new(big.Int).Sub(in.cur, n)), c03S)) >= 0, "charged-at-least-exact")
	vAssert(f.Sign() >= 0 && ao.Sign() >= 0 && ai.Sign() >= 0, "non-negative")
	if n.Cmp(in.tgt) == 0 {
		// fee >= in * f/(1-f)
		vAssert(new(big.Int).Mul(f, new(big.Int).Sub(c03T, in.spread)).Cmp(new(big.Int).Mul(ai, in.spread)) >= 0, "reached:fee-at-least-spread-on-amount-in")
	} else {
		vAssert(new(big.Int).Add(ai, f).Cmp(in.rem) == 0, "not-reached:consumes-exactly-the-remaining-amount")
	}
}

// exact-in, one for zero: token1 in, token0 out, price moves up
func VH_C03_ofz_OutGivenIn() {
	in := c03Inputs(false)
	s := &oneForZeroStrategy{sqrtPriceLimit: c03BD(c03MaxSqrt), spreadFactor: c03Dec(in.spread)}
	vConfig("lazy", 1)
	vReach("reach")
	next, amtIn, amtOut, fee := s.ComputeSwapWithinBucketOutGivenIn(c03BD(in.cur), c03BD(in.tgt), c03Dec(in.liq), c03Dec(in.rem))
	n, ai, ao, f := c03Raw(next), amtIn.BigIntMut(), amtOut.BigIntMut(), fee.BigIntMut()
	vAssert(n.Cmp(in.cur) >= 0 && n.Cmp(in.tgt) <= 0, "next-price-between-current-and-target")
	// in (token1) >= liq * (next - cur)
	vAssert(new(big.Int).Mul(ai, c03S).Cmp(new(big.Int).Mul(in.liq, new(big.Int).Sub(n, in.cur))) >= 0, "charged-at-least-exact")
	// out (token0) <= liq * (next - cur) / (next * cur)
	vAssert(new(big.Int).Mul(new(big.Int).Mul(ao, n), in.cur).Cmp(new(big.Int).Mul(new(big.Int).Mul(in.liq, new(big.Int).Sub(n, in.cur)), c03S)) <= 0, "paid-out-at-most-exact")
	vAssert(f.Sign() >= 0 && ao.Sign() >= 0 && ai.Sign() >= 0, "non-negative")
	if n.Cmp(in.tgt) == 0 {
		vAssert(new(big.Int).Mul(f, new(big.Int).Sub(c03T, in.spread)).Cmp(new(big.Int).Mul(ai, in.spread)) >= 0, "reached:fee-at-least-spread-on-amount-in")
	} else {
		vAssert(new(big.Int).Add(ai, f).Cmp(in.rem) == 0, "not-reached:consumes-exactly-the-remaining-amount")
	}
}

// exact-out, zero for one: token1 out requested, token0 charged, price moves down
func VH_C03_zfo_InGivenOut() {
	in := c03Inputs(true)
	s := &zeroForOneStrategy{sqrtPriceLimit: c03BD(c03MinSqrt), spreadFactor: c03Dec(in.spread)}
	vConfig("lazy", 1)
	vReach("reach")
	next, amtOut, amtIn, fee := s.ComputeSwapWithinBucketInGivenOut(c03BD(in.cur), c03BD(in.tgt), c03Dec(in.liq), c03Dec(in.rem))
	n, ao, ai, f := c03Raw(next), amtOut.BigIntMut(), amtIn.BigIntMut(), fee.BigIntMut()
	vAssert(n.Cmp(in.tgt) >= 0 && n.Cmp(in.cur) <= 0, "next-price-between-target-and-current")
	vAssert(new(big.Int).Mul(ao, c03S).Cmp(new(big.Int).Mul(in.liq, new(big.Int).Sub(in.cur, n))) <= 0, "paid-out-at-most-exact")
	vAssert(new(big.Int).Mul(new(big.Int).Mul(ai, n), in.cur).Cmp(new(big.Int).Mul(new(big.Int).Mul(in.liq, new(big.Int).Sub(in.cur, n)), c03S)) >= 0, "charged-at-least-exact")
	vAssert(ao.Cmp(in.rem) <= 0, "never-pays-more-than-requested")
	vAssert(new(big.Int).Mul(f, new(big.Int).Sub(c03T, in.spread)).Cmp(new(big.Int).Mul(ai, in.spread)) >= 0, "fee-at-least-spread-on-amount-in")
	vAssert(f.Sign() >= 0 && ao.Sign() >= 0 && ai.Sign() >= 0, "non-negative")
}

// exact-out, one for zero: token0 out requested, token1 charged, price moves up
func VH_C03_ofz_InGivenOut() {
	in := c03Inputs(false)
	s := &oneForZeroStrategy{sqrtPriceLimit: c03BD(c03MaxSqrt), spreadFactor: c03Dec(in.spread)}
	vConfig("lazy", 1)
	vReach("reach")
	next, amtOut, amtIn, fee := s.ComputeSwapWithinBucketInGivenOut(c03BD(in.cur), c03BD(in.tgt), c03Dec(in.liq), c03Dec(in.rem))
	n, ao, ai, f := c03Raw(next), amtOut.BigIntMut(), amtIn.BigIntMut(), fee.BigIntMut()
	vAssert(n.Cmp(in.cur) >= 0 && n.Cmp(in.tgt) <= 0, "next-price-between-current-and-target")
	vAssert(new(big.Int).Mul(ai, c03S).Cmp(new(big.Int).Mul(in.liq, new(big.Int).Sub(n, in.cur))) >= 0, "charged-at-least-exact")
	vAssert(new(big.Int).Mul(new(big.Int).Mul(ao, n), in.cur).Cmp(new(big.Int).Mul(new(big.Int).Mul(in.liq, new(big.Int).Sub(n, in.cur)), c03S)) <= 0, "paid-out-at-most-exact")
	vAssert(ao.Cmp(in.rem) <= 0, "never-pays-more-than-requested")
	vAssert(new(big.Int).Mul(f, new(big.Int).Sub(c03T, in.spread)).Cmp(new(big.Int).Mul(ai, in.spread)) >= 0, "fee-at-least-spread-on-amount-in")
	vAssert(f.Sign() >= 0 && ao.Sign() >= 0 && ai.Sign() >= 0, "non-negative")
}
