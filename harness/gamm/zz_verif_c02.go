package keeper

// C02 harnesses: the real x/gamm keeper entry points (JoinPoolNoSwap, ExitPool, SwapExactAmountIn, SwapExactAmountOut,
// ExitSwapShareAmountIn) run on a balancer pool with SYMBOLIC reserves, share total and amounts over a model bank
// that refuses overdrafts and tracks supply. After every operation that succeeds the three ledgers must agree:
// pool account balance vs. the reserves the pool reports, share supply vs. the share total the pool reports, supply of
// the traded denominations unchanged; the sender's balance moves by exactly what the operation reports.

import (
	"context"
	"errors"
	"fmt"

	storetypes "cosmossdk.io/store/types"
	"github.com/cosmos/cosmos-sdk/codec"
	codectypes "github.com/cosmos/cosmos-sdk/codec/types"
	sdk "github.com/cosmos/cosmos-sdk/types"
	banktypes "github.com/cosmos/cosmos-sdk/x/bank/types"

	"github.com/osmosis-labs/osmosis/osmomath"
	"github.com/osmosis-labs/osmosis/v31/x/gamm/pool-models/balancer"
	"github.com/osmosis-labs/osmosis/v31/x/gamm/pool-models/stableswap"
	"github.com/osmosis-labs/osmosis/v31/x/gamm/types"
	poolmanagertypes "github.com/osmosis-labs/osmosis/v31/x/poolmanager/types"
)

const c02Share = "gamm/pool/1"

type c02Ledger struct {
	addr   []string
	denom  []string
	amt    []osmomath.Int
	sdenom []string
	supply []osmomath.Int
}

func (l *c02Ledger) get(addr, denom string) osmomath.Int {
	for i := range l.addr {
		if l.addr[i] == addr && l.denom[i] == denom {
			return l.amt[i]
		}
	}
	return osmomath.ZeroInt()
}

func (l *c02Ledger) set(addr, denom string, v osmomath.Int) {
	for i := range l.addr {
		if l.addr[i] == addr && l.denom[i] == denom {
			l.amt[i] = v
			return
		}
	}
	l.addr = append(l.addr, addr)
	l.denom = append(l.denom, denom)
	l.amt = append(l.amt, v)
}

func (l *c02Ledger) sup(denom string) osmomath.Int {
	for i := range l.sdenom {
		if l.sdenom[i] == denom {
			return l.supply[i]
		}
	}
	return osmomath.ZeroInt()
}

func (l *c02Ledger) addSup(denom string, v osmomath.Int) {
	for i := range l.sdenom {
		if l.sdenom[i] == denom {
			l.supply[i] = l.supply[i].Add(v)
			return
		}
	}
	l.sdenom = append(l.sdenom, denom)
	l.supply = append(l.supply, v)
}

// move refuses overdrafts and leaves the ledger untouched when it does (as the bank does)
func (l *c02Ledger) move(from, to string, coins sdk.Coins) error {
	for _, c := range coins {
		if c.Amount.IsNegative() || l.get(from, c.Denom).LT(c.Amount) {
			return errors.New("insufficient funds")
		}
	}
	for _, c := range coins {
		l.set(from, c.Denom, l.get(from, c.Denom).Sub(c.Amount))
		l.set(to, c.Denom, l.get(to, c.Denom).Add(c.Amount))
	}
	return nil
}

type c02Bank struct{ l *c02Ledger }

func (b c02Bank) SendCoinsFromModuleToAccount(ctx context.Context, senderModule string, recipientAddr sdk.AccAddress, amt sdk.Coins) error {
	return b.l.move("module:"+senderModule, string(recipientAddr), amt)
}
func (b c02Bank) SendCoinsFromAccountToModule(ctx context.Context, senderAddr sdk.AccAddress, recipientModule string, amt sdk.Coins) error {
	return b.l.move(string(senderAddr), "module:"+recipientModule, amt)
}
func (b c02Bank) SendCoins(ctx context.Context, fromAddr sdk.AccAddress, toAddr sdk.AccAddress, amt sdk.Coins) error {
	return b.l.move(string(fromAddr), string(toAddr), amt)
}
func (b c02Bank) MintCoins(ctx context.Context, moduleName string, amt sdk.Coins) error {
	for _, c := range amt {
		b.l.set("module:"+moduleName, c.Denom, b.l.get("module:"+moduleName, c.Denom).Add(c.Amount))
		b.l.addSup(c.Denom, c.Amount)
	}
	return nil
}
func (b c02Bank) BurnCoins(ctx context.Context, name string, amt sdk.Coins) error {
	for _, c := range amt {
		if b.l.get("module:"+name, c.Denom).LT(c.Amount) {
			return errors.New("insufficient funds to burn")
		}
	}
	for _, c := range amt {
		b.l.set("module:"+name, c.Denom, b.l.get("module:"+name, c.Denom).Sub(c.Amount))
		b.l.addSup(c.Denom, c.Amount.Neg())
	}
	return nil
}
func (b c02Bank) SetDenomMetaData(ctx context.Context, denomMetaData banktypes.Metadata) {}
func (b c02Bank) GetAllBalances(ctx context.Context, addr sdk.AccAddress) sdk.Coins {
	return sdk.Coins{}
}

// pool (de)serialisation is cut at Keeper.MarshalPool / UnmarshalPool (Any packing through the interface registry is
// reflection): the stubs keep deep copies, so that a stale pool object written back is still visible as such
var c02Saved []types.CFMMPoolI

func c02Clone(p *balancer.Pool) *balancer.Pool {
	q := *p
	q.TotalShares = sdk.NewCoin(p.TotalShares.Denom, osmomath.NewIntFromBigInt(p.TotalShares.Amount.BigInt()))
	q.TotalWeight = osmomath.NewIntFromBigInt(p.TotalWeight.BigInt())
	q.PoolAssets = make([]balancer.PoolAsset, len(p.PoolAssets))
	for i, a := range p.PoolAssets {
		q.PoolAssets[i] = balancer.PoolAsset{Token: sdk.NewCoin(a.Token.Denom, osmomath.NewIntFromBigInt(a.Token.Amount.BigInt())), Weight: osmomath.NewIntFromBigInt(a.Weight.BigInt())}
	}
	return &q
}

func c02CloneStable(p *stableswap.Pool) *stableswap.Pool {
	q := *p
	q.TotalShares = sdk.NewCoin(p.TotalShares.Denom, osmomath.NewIntFromBigInt(p.TotalShares.Amount.BigInt()))
	q.PoolLiquidity = make(sdk.Coins, len(p.PoolLiquidity))
	for i, c := range p.PoolLiquidity {
		q.PoolLiquidity[i] = sdk.NewCoin(c.Denom, osmomath.NewIntFromBigInt(c.Amount.BigInt()))
	}
	q.ScalingFactors = append([]uint64{}, p.ScalingFactors...)
	return &q
}

func c02CloneAny(pool interface{}) types.CFMMPoolI {
	switch p := pool.(type) {
	case *balancer.Pool:
		return c02Clone(p)
	case *stableswap.Pool:
		return c02CloneStable(p)
	}
	return nil
}

func c02MarshalStub(k Keeper, pool poolmanagertypes.PoolI) ([]byte, error) {
	c := c02CloneAny(pool)
	if c == nil {
		return nil, errors.New("c02: only balancer and stableswap pools are modelled")
	}
	c02Saved = append(c02Saved, c)
	return []byte{byte(len(c02Saved))}, nil
}

func c02UnmarshalStub(k Keeper, bz []byte) (types.CFMMPoolI, error) {
	if len(bz) != 1 || int(bz[0]) < 1 || int(bz[0]) > len(c02Saved) {
		return nil, errors.New("c02: unknown pool bytes")
	}
	return c02CloneAny(c02Saved[int(bz[0])-1]), nil
}

// the stableswap curve solver (binary search, C13/C04) is cut at its interface: an arbitrary amount with the sign of the
// input and, when paying out, strictly less than the reserve it is taken from
var c02CfmmCalls int

func c02SolveCfmmStub(xReserve, yReserve osmomath.BigDec, remReserves []osmomath.BigDec, yIn osmomath.BigDec) osmomath.BigDec {
	c02CfmmCalls++
	r := osmomath.NewBigDecFromBigIntWithPrec(vNondetBigRange(fmt.Sprintf("cfmm_result_%d", c02CfmmCalls), osmomath.NewInt(1).BigInt(), osmomath.NewIntWithDecimal(1, 50).BigInt()), 36)
	if yIn.IsNegative() {
		return r.Neg()
	}
	vAssume(r.LT(xReserve))
	return r
}

// osmomath.Pow (series approximation, C13) is cut at its interface: an arbitrary positive value on the same side of one
// as the base. The ledger agreement asserted below does not depend on what the pool's curve returns.
var c02PowCalls int

func c02PowStub(base, exp osmomath.Dec) osmomath.Dec {
	c02PowCalls++
	r := osmomath.NewDecFromBigIntWithPrec(vNondetBigRange(fmt.Sprintf("pow_result_%d", c02PowCalls), osmomath.NewInt(1).BigInt(), osmomath.NewInt(2000000000000000000).BigInt()), 18)
	one := osmomath.OneDec()
	if base.LT(one) {
		vAssume(r.LT(one))
	} else if base.GT(one) {
		vAssume(r.GT(one))
	} else {
		return one
	}
	return r
}

func c02AddrStub(address string) (sdk.AccAddress, error) { return sdk.AccAddress(address), nil }
func c02AddrString(aa sdk.AccAddress) string             { return string(aa) }

type c02World struct {
	k        *Keeper
	ctx      sdk.Context
	led      *c02Ledger
	sender   sdk.AccAddress
	poolAddr sdk.AccAddress
	supA     osmomath.Int
	shares   osmomath.Int
	supB     osmomath.Int
}

func c02Int(name string, lo, hi int64) osmomath.Int {
	return osmomath.NewIntFromBigInt(vNondetBigRange(name, osmomath.NewInt(lo).BigInt(), osmomath.NewInt(hi).BigInt()))
}

func c02Setup(minReserve int64) *c02World { return c02SetupKind(minReserve, 0) }

func c02SetupKind(minReserve int64, kind int) *c02World {
	if vNative() {
		sdk.GetConfig().SetBech32PrefixForAccount("osmo", "osmopub")
	}
	vOverride("github.com/cosmos/cosmos-sdk/types.AccAddressFromBech32", c02AddrStub)
	vOverride("(github.com/cosmos/cosmos-sdk/types.AccAddress).String", c02AddrString)
	vOverride("(github.com/osmosis-labs/osmosis/v31/x/gamm/keeper.Keeper).MarshalPool", c02MarshalStub)
	vOverride("(github.com/osmosis-labs/osmosis/v31/x/gamm/keeper.Keeper).UnmarshalPool", c02UnmarshalStub)
	vOverride("sort.Slice", vSortSlice)
	vOverride("github.com/osmosis-labs/osmosis/osmomath.Pow", c02PowStub)
	vOverride("github.com/osmosis-labs/osmosis/v31/x/gamm/pool-models/stableswap.solveCfmm", c02SolveCfmmStub)
	c02Saved = nil
	c02PowCalls = 0
	c02CfmmCalls = 0
	w := &c02World{led: &c02Ledger{}}
	key := storetypes.NewKVStoreKey(types.StoreKey)
	ms := vNewMS(types.StoreKey)
	w.ctx = vNewCtx(ms, vTimeFromNanos(int64(1700000000)*1000000000), 10)
	w.k = &Keeper{storeKey: key, bankKeeper: c02Bank{w.led}, hooks: types.NewMultiGammHooks()}
	if vNative() {
		reg := codectypes.NewInterfaceRegistry()
		types.RegisterInterfaces(reg)
		balancer.RegisterInterfaces(reg)
		stableswap.RegisterInterfaces(reg)
		w.k.cdc = codec.NewProtoCodec(reg)
	}
	a, err := sdk.AccAddressFromBech32(vAddrTable[0])
	if err != nil {
		vAssume(false)
	}
	w.sender = a
	pa, err := sdk.AccAddressFromBech32(vAddrTable[1])
	if err != nil {
		vAssume(false)
	}
	w.poolAddr = pa
	resA, resB := c02Int("reserve_a", minReserve, 1000000000000), c02Int("reserve_b", minReserve, 1000000000000)
	shares := c02Int("total_shares", 1000000, 1000000000000000000)
	weight := osmomath.NewInt(1 << 30)
	var pool poolmanagertypes.PoolI = &balancer.Pool{
		Address: vAddrTable[1], Id: 1,
		PoolParams:  balancer.PoolParams{SwapFee: osmomath.MustNewDecFromStr("0.003"), ExitFee: osmomath.ZeroDec()},
		TotalShares: sdk.NewCoin(c02Share, shares),
		PoolAssets: []balancer.PoolAsset{
			{Token: sdk.NewCoin("uaa", resA), Weight: weight},
			{Token: sdk.NewCoin("ubb", resB), Weight: weight},
		},
		TotalWeight: weight.MulRaw(2),
	}
	if kind == 1 {
		pool = &stableswap.Pool{
			Address: vAddrTable[1], Id: 1,
			PoolParams:     stableswap.PoolParams{SwapFee: osmomath.MustNewDecFromStr("0.003"), ExitFee: osmomath.ZeroDec()},
			TotalShares:    sdk.NewCoin(c02Share, shares),
			PoolLiquidity:  sdk.Coins{sdk.NewCoin("uaa", resA), sdk.NewCoin("ubb", resB)},
			ScalingFactors: []uint64{1, 1},
		}
	}
	if err := w.k.setPool(w.ctx, pool); err != nil {
		vAssume(false)
	}
	// bank state matching the pool record: reserves in the pool account, shares held by the sender and another LP
	w.led.set(string(pa), "uaa", resA)
	w.led.set(string(pa), "ubb", resB)
	own := c02Int("sender_shares", 0, 1000000000000000000)
	vAssume(own.LTE(shares))
	w.led.set(string(a), c02Share, own)
	w.led.set("other-lp", c02Share, shares.Sub(own))
	w.led.addSup(c02Share, shares)
	balA, balB := c02Int("sender_a", 0, 1000000000000), c02Int("sender_b", 0, 1000000000000)
	w.led.set(string(a), "uaa", balA)
	w.led.set(string(a), "ubb", balB)
	w.supA, w.supB = resA.Add(balA), resB.Add(balB)
	w.shares = shares
	return w
}

// check: the three ledgers agree
func (w *c02World) check(tag string) {
	pool, err := w.k.GetPoolAndPoke(w.ctx, 1)
	vAssert(err == nil, tag+":pool-readable")
	if err != nil {
		return
	}
	liq := pool.GetTotalPoolLiquidity(w.ctx)
	vAssert(w.led.get(string(w.poolAddr), "uaa").GTE(liq.AmountOf("uaa")), tag+":pool-account-covers-reported-reserve-a")
	vAssert(w.led.get(string(w.poolAddr), "ubb").GTE(liq.AmountOf("ubb")), tag+":pool-account-covers-reported-reserve-b")
	vAssert(w.led.sup(c02Share).Equal(pool.GetTotalShares()), tag+":share-supply-equals-reported-total-shares")
	circ := w.led.get(string(w.sender), c02Share).Add(w.led.get("other-lp", c02Share)).Add(w.led.get("module:gamm", c02Share))
	vAssert(circ.Equal(w.led.sup(c02Share)), tag+":share-holdings-equal-share-supply")
	// non-share denominations: nothing minted or burned, every unit is with the sender or in the pool
	vAssert(w.led.sup("uaa").IsZero() && w.led.sup("ubb").IsZero(), tag+":no-mint-or-burn-of-traded-denoms")
	vAssert(w.led.get(string(w.sender), "uaa").Add(w.led.get(string(w.poolAddr), "uaa")).Equal(w.supA), tag+":token-a-conserved")
	vAssert(w.led.get(string(w.sender), "ubb").Add(w.led.get(string(w.poolAddr), "ubb")).Equal(w.supB), tag+":token-b-conserved")
}

func (w *c02World) exact(tag string) {
	pool, err := w.k.GetPoolAndPoke(w.ctx, 1)
	if err != nil {
		return
	}
	liq := pool.GetTotalPoolLiquidity(w.ctx)
	vAssert(w.led.get(string(w.poolAddr), "uaa").Equal(liq.AmountOf("uaa")) && w.led.get(string(w.poolAddr), "ubb").Equal(liq.AmountOf("ubb")), tag+":pool-account-equals-reported-reserves")
}

func VH_C02_join_no_swap() {
	vConfig("lazy_math", 1)
	w := c02Setup(1000)
	shareOut := c02Int("share_out", 1, 1000000000000000000)
	sharesBefore := w.led.get(string(w.sender), c02Share)
	aBefore := w.led.get(string(w.sender), "uaa")
	tokenIn, sharesOut, err := w.k.JoinPoolNoSwap(w.ctx, w.sender, 1, shareOut, sdk.Coins{})
	if err != nil {
		vReach("reach-refused")
		return
	}
	vReach("reach")
	w.check("join")
	vAssert(w.led.get(string(w.sender), c02Share).Equal(sharesBefore.Add(sharesOut)), "join:sender-receives-reported-shares")
	vAssert(aBefore.Sub(w.led.get(string(w.sender), "uaa")).Equal(tokenIn.AmountOf("uaa")), "join:sender-pays-reported-tokens")
}

func VH_C02_exit_pool() {
	vConfig("lazy_math", 1)
	w := c02Setup(1000)
	shareIn := c02Int("share_in", 1, 1000000000000000000)
	aBefore := w.led.get(string(w.sender), "uaa")
	exitCoins, err := w.k.ExitPool(w.ctx, w.sender, 1, shareIn, sdk.Coins{})
	if err != nil {
		vReach("reach-refused")
		return
	}
	vReach("reach")
	w.check("exit")
	w.exact("exit")
	vAssert(w.led.get(string(w.sender), "uaa").Sub(aBefore).Equal(exitCoins.AmountOf("uaa")), "exit:sender-receives-reported-tokens")
}

func VH_C02_swap_exact_in() {
	vConfig("lazy_math", 1)
	w := c02Setup(1000000000)
	in := c02Int("token_in", 1000, 1000000000000)
	minOut := c02Int("min_out", 1, 1000000000000)
	pool, err := w.k.GetPoolAndPoke(w.ctx, 1)
	if err != nil {
		vAssume(false)
	}
	aBefore, bBefore := w.led.get(string(w.sender), "uaa"), w.led.get(string(w.sender), "ubb")
	out, err := w.k.SwapExactAmountIn(w.ctx, w.sender, pool, sdk.NewCoin("uaa", in), "ubb", minOut, pool.GetSpreadFactor(w.ctx))
	if err != nil {
		vReach("reach-refused")
		return
	}
	vReach("reach")
	w.check("swap-in")
	w.exact("swap-in")
	vAssert(aBefore.Sub(w.led.get(string(w.sender), "uaa")).Equal(in), "swap-in:sender-pays-exactly-token-in")
	vAssert(w.led.get(string(w.sender), "ubb").Sub(bBefore).Equal(out) && out.GTE(minOut), "swap-in:sender-receives-reported-amount-at-least-min")
}

func VH_C02_swap_exact_out() {
	vConfig("lazy_math", 1)
	w := c02Setup(1000000000)
	out := c02Int("token_out", 1000, 1000000000000)
	maxIn := c02Int("max_in", 1, 1000000000000)
	pool, err := w.k.GetPoolAndPoke(w.ctx, 1)
	if err != nil {
		vAssume(false)
	}
	aBefore, bBefore := w.led.get(string(w.sender), "uaa"), w.led.get(string(w.sender), "ubb")
	in, err := w.k.SwapExactAmountOut(w.ctx, w.sender, pool, "uaa", maxIn, sdk.NewCoin("ubb", out), pool.GetSpreadFactor(w.ctx))
	if err != nil {
		vReach("reach-refused")
		return
	}
	vReach("reach")
	w.check("swap-out")
	w.exact("swap-out")
	vAssert(aBefore.Sub(w.led.get(string(w.sender), "uaa")).Equal(in) && in.LTE(maxIn), "swap-out:sender-pays-reported-amount-at-most-max")
	vAssert(w.led.get(string(w.sender), "ubb").Sub(bBefore).Equal(out), "swap-out:sender-receives-exactly-token-out")
}

func VH_C02_exit_swap_share_amount_in() {
	vConfig("lazy_math", 1)
	w := c02Setup(1000000000)
	shareIn := c02Int("share_in", 1, 1000000000000000000)
	// at least a thousandth of the pool, so that the exited coins are worth swapping
	vAssume(shareIn.MulRaw(1000).GTE(w.shares))
	bBefore := w.led.get(string(w.sender), "ubb")
	aBefore := w.led.get(string(w.sender), "uaa")
	out, err := w.k.ExitSwapShareAmountIn(w.ctx, w.sender, 1, "ubb", shareIn, osmomath.OneInt())
	if err != nil {
		vReach("reach-refused")
		return
	}
	vReach("reach")
	w.check("exit-swap")
	w.exact("exit-swap")
	vAssert(w.led.get(string(w.sender), "ubb").Sub(bBefore).Equal(out), "exit-swap:sender-receives-reported-amount")
	vAssert(w.led.get(string(w.sender), "uaa").Equal(aBefore), "exit-swap:other-token-fully-swapped")
}

// the same one-step lemmas on a two-asset stableswap pool (curve solver cut at solveCfmm)
func VH_C02_stableswap_swap_exact_in() {
	vConfig("lazy_math", 1)
	w := c02SetupKind(1000000000, 1)
	in := c02Int("token_in", 1000, 1000000000000)
	minOut := c02Int("min_out", 1, 1000000000000)
	pool, err := w.k.GetPoolAndPoke(w.ctx, 1)
	if err != nil {
		vAssume(false)
	}
	aBefore, bBefore := w.led.get(string(w.sender), "uaa"), w.led.get(string(w.sender), "ubb")
	out, err := w.k.SwapExactAmountIn(w.ctx, w.sender, pool, sdk.NewCoin("uaa", in), "ubb", minOut, pool.GetSpreadFactor(w.ctx))
	if err != nil {
		vReach("reach-refused")
		return
	}
	vReach("reach")
	w.check("stable-swap-in")
	w.exact("stable-swap-in")
	vAssert(aBefore.Sub(w.led.get(string(w.sender), "uaa")).Equal(in), "stable-swap-in:sender-pays-exactly-token-in")
	vAssert(w.led.get(string(w.sender), "ubb").Sub(bBefore).Equal(out) && out.GTE(minOut), "stable-swap-in:sender-receives-reported-amount-at-least-min")
}

func VH_C02_stableswap_swap_exact_out() {
	vConfig("lazy_math", 1)
	w := c02SetupKind(1000000000, 1)
	out := c02Int("token_out", 1000, 1000000000000)
	maxIn := c02Int("max_in", 1, 1000000000000)
	pool, err := w.k.GetPoolAndPoke(w.ctx, 1)
	if err != nil {
		vAssume(false)
	}
	aBefore, bBefore := w.led.get(string(w.sender), "uaa"), w.led.get(string(w.sender), "ubb")
	in, err := w.k.SwapExactAmountOut(w.ctx, w.sender, pool, "uaa", maxIn, sdk.NewCoin("ubb", out), pool.GetSpreadFactor(w.ctx))
	if err != nil {
		vReach("reach-refused")
		return
	}
	vReach("reach")
	w.check("stable-swap-out")
	w.exact("stable-swap-out")
	vAssert(aBefore.Sub(w.led.get(string(w.sender), "uaa")).Equal(in) && in.LTE(maxIn), "stable-swap-out:sender-pays-reported-amount-at-most-max")
	vAssert(w.led.get(string(w.sender), "ubb").Sub(bBefore).Equal(out), "stable-swap-out:sender-receives-exactly-token-out")
}

func VH_C02_stableswap_join_and_exit() {
	vConfig("lazy_math", 1)
	w := c02SetupKind(1000, 1)
	if vChoose("operation", 2) == 0 {
		shareOut := c02Int("share_out", 1, 1000000000000000000)
		_, _, err := w.k.JoinPoolNoSwap(w.ctx, w.sender, 1, shareOut, sdk.Coins{})
		if err != nil {
			vReach("reach-join-refused")
			return
		}
		vReach("reach-join")
		w.check("stable-join")
		return
	}
	shareIn := c02Int("share_in", 1, 1000000000000000000)
	_, err := w.k.ExitPool(w.ctx, w.sender, 1, shareIn, sdk.Coins{})
	if err != nil {
		vReach("reach-exit-refused")
		return
	}
	vReach("reach-exit")
	w.check("stable-exit")
	w.exact("stable-exit")
}
