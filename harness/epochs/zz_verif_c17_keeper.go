package keeper

// C17 harnesses (timers): one BeginBlocker step from an arbitrary timer state and block time.

import (
	"time"

	storetypes "cosmossdk.io/store/types"
	sdk "github.com/cosmos/cosmos-sdk/types"

	"github.com/osmosis-labs/osmosis/x/epochs/types"
)

type c17Call struct {
	kind int // 0 = AfterEpochEnd, 1 = BeforeEpochStart
	id   string
	n    int64
}

type c17Hooks struct{ calls *[]c17Call }

func (h c17Hooks) AfterEpochEnd(ctx sdk.Context, id string, n int64) error {
	*h.calls = append(*h.calls, c17Call{0, id, n})
	return nil
}
func (h c17Hooks) BeforeEpochStart(ctx sdk.Context, id string, n int64) error {
	*h.calls = append(*h.calls, c17Call{1, id, n})
	return nil
}
func (h c17Hooks) GetModuleName() string { return "c17" }

func c17Keeper() (*Keeper, *vMS, *[]c17Call) {
	key := storetypes.NewKVStoreKey(types.StoreKey)
	k := NewKeeper(key)
	calls := &[]c17Call{}
	k.SetHooks(c17Hooks{calls})
	return k, vNewMS(types.StoreKey), calls
}

const c17Year = int64(365 * 24 * 3600 * 1000000000)

// c17Timer builds an arbitrary timer state. Times are nanoseconds in [1, 200 years] after the Unix epoch.
func c17Timer(prefix, id string) types.EpochInfo {
	start := vNondetRange(prefix+"start", 1, 100*c17Year)
	dur := vNondetRange(prefix+"duration", 1, 50*c17Year)
	curStart := vNondetRange(prefix+"curStart", 1, 150*c17Year)
	epoch := vNondetRange(prefix+"epoch", 0, 1<<40)
	started := vNondetBool(prefix + "started")
	return types.EpochInfo{
		Identifier:              id,
		StartTime:               vTimeFromNanos(start),
		Duration:                time.Duration(dur),
		CurrentEpoch:            epoch,
		CurrentEpochStartTime:   vTimeFromNanos(curStart),
		EpochCountingStarted:    started,
		CurrentEpochStartHeight: vNondetRange(prefix+"height0", 0, 1<<40),
	}
}

// c17CheckStep compares the timer after one block with the specification of a single tick.
func c17CheckStep(pre, post types.EpochInfo, now time.Time, height int64, calls []c17Call, tag string) {
	end := pre.CurrentEpochStartTime.Add(pre.Duration)
	switch {
	case now.Before(pre.StartTime):
		vAssert(post == pre, tag+"before-start:unchanged")
		vAssert(len(calls) == 0, tag+"before-start:no-signals")
	case !pre.EpochCountingStarted:
		vAssert(post.EpochCountingStarted && post.CurrentEpoch == 1, tag+"initial:epoch-one")
		vAssert(post.CurrentEpochStartTime.Equal(pre.StartTime), tag+"initial:starts-at-start-time")
		vAssert(post.CurrentEpochStartHeight == height, tag+"initial:height-recorded")
		vAssert(len(calls) == 1 && calls[0].kind == 1 && calls[0].n == 1 && calls[0].id == pre.Identifier, tag+"initial:only-start-signal")
	case now.After(end):
		vAssert(post.CurrentEpoch == pre.CurrentEpoch+1, tag+"tick:advances-by-one")
		vAssert(post.CurrentEpochStartTime.Equal(end), tag+"tick:start-time-on-grid")
		vAssert(post.EpochCountingStarted, tag+"tick:still-started")
		vAssert(post.CurrentEpochStartHeight == height, tag+"tick:height-recorded")
		vAssert(len(calls) == 2 && calls[0].kind == 0 && calls[0].n == pre.CurrentEpoch && calls[1].kind == 1 && calls[1].n == pre.CurrentEpoch+1,
			tag+"tick:end-of-n-then-start-of-n+1")
		vAssert(len(calls) == 2 && calls[0].id == pre.Identifier && calls[1].id == pre.Identifier, tag+"tick:own-identifier")
	default:
		vAssert(post == pre, tag+"inside-epoch:unchanged")
		vAssert(len(calls) == 0, tag+"inside-epoch:no-signals")
	}
	vAssert(post.Identifier == pre.Identifier && post.StartTime.Equal(pre.StartTime) && post.Duration == pre.Duration, tag+"static-fields-unchanged")
	// arithmetic grid: start + (epoch-1)*duration is preserved once counting has started
	if pre.EpochCountingStarted && post.EpochCountingStarted {
		onGridPre := pre.CurrentEpochStartTime.Sub(pre.StartTime) == time.Duration(pre.CurrentEpoch-1)*pre.Duration
		onGridPost := post.CurrentEpochStartTime.Sub(post.StartTime) == time.Duration(post.CurrentEpoch-1)*post.Duration
		vAssert(!onGridPre || onGridPost, tag+"grid-preserved")
	}
}

func VH_C17_single_timer_step() {
	k, ms, calls := c17Keeper()
	now := vTimeFromNanos(vNondetRange("now", 1, 199*c17Year))
	height := vNondetRange("height", 1, 1<<40)
	ctx := vNewCtx(ms, now, height)
	pre := c17Timer("", "day")
	k.setEpochInfo(ctx, pre)
	vReach("reach")
	k.BeginBlocker(ctx)
	post := k.GetEpochInfo(ctx, "day")
	c17CheckStep(pre, post, now, height, *calls, "")
}

// Two timers in one block: each follows the single-timer specification independently of the other
// (in particular a timer whose start time has not come does not hold back the others).
func VH_C17_two_timers_independent() {
	k, ms, calls := c17Keeper()
	now := vTimeFromNanos(vNondetRange("now", 1, 199*c17Year))
	height := vNondetRange("height", 1, 1<<40)
	ctx := vNewCtx(ms, now, height)
	a := c17Timer("a_", "a")
	b := c17Timer("b_", "b")
	k.setEpochInfo(ctx, a)
	k.setEpochInfo(ctx, b)
	vReach("reach")
	k.BeginBlocker(ctx)
	var ca, cb []c17Call
	for _, c := range *calls {
		if c.id == "a" {
			ca = append(ca, c)
		} else {
			cb = append(cb, c)
		}
	}
	c17CheckStep(a, k.GetEpochInfo(ctx, "a"), now, height, ca, "a:")
	c17CheckStep(b, k.GetEpochInfo(ctx, "b"), now, height, cb, "b:")
}

// Three consecutive blocks with non-decreasing times: at most one tick per block, signals strictly ordered
// end(n) < start(n+1) < end(n+1) ..., each exactly once.
func VH_C17_three_blocks_ordering() {
	k, ms, calls := c17Keeper()
	t1 := vNondetRange("t1", 1, 190*c17Year)
	d2 := vNondetRange("d2", 0, 3*c17Year)
	d3 := vNondetRange("d3", 0, 3*c17Year)
	pre := c17Timer("", "day")
	vAssume(pre.EpochCountingStarted)
	ctx1 := vNewCtx(ms, vTimeFromNanos(t1), 10)
	k.setEpochInfo(ctx1, pre)
	vReach("reach")
	k.BeginBlocker(ctx1)
	k.BeginBlocker(vNewCtx(ms, vTimeFromNanos(t1+d2), 11))
	k.BeginBlocker(vNewCtx(ms, vTimeFromNanos(t1+d2+d3), 12))
	post := k.GetEpochInfo(ctx1, "day")
	cs := *calls
	vAssert(len(cs)%2 == 0 && len(cs) <= 6, "signals-come-in-pairs-at-most-one-per-block")
	vAssert(post.CurrentEpoch == pre.CurrentEpoch+int64(len(cs)/2), "epoch-advanced-once-per-pair")
	for i := 0; i+1 < len(cs); i += 2 {
		n := pre.CurrentEpoch + int64(i/2)
		vAssert(cs[i].kind == 0 && cs[i].n == n, "end-of-epoch-n")
		vAssert(cs[i+1].kind == 1 && cs[i+1].n == n+1, "then-start-of-epoch-n+1")
	}
}
