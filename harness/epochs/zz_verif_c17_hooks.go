package types

// C17 harnesses (hook containment): MultiEpochHooks -> panicCatchingEpochHook -> osmoutils.ApplyFuncIfNoError.

import (
	"errors"
	"fmt"

	storetypes "cosmossdk.io/store/types"
	sdk "github.com/cosmos/cosmos-sdk/types"
)

// outcome of one subscriber: 0 ok, 1 error, 2 panic(string), 3 panic(error), 4 runtime-like panic (nil map write),
// 5 panic(ErrorOutOfGas), 6 panic(ErrorGasOverflow)
type c17Sub struct {
	idx     int
	outcome int
	ran     *[]int
	key     storetypes.StoreKey
}

func (s c17Sub) act(ctx sdk.Context) error {
	*s.ran = append(*s.ran, s.idx)
	// every subscriber writes two keys of its own and overwrites a shared one before its outcome
	st := ctx.KVStore(s.key)
	st.Set([]byte(fmt.Sprintf("own-%d", s.idx)), []byte{byte(1 + s.idx)})
	st.Set([]byte("shared"), []byte{byte(10 + s.idx)})
	switch s.outcome {
	case 0:
		return nil
	case 1:
		return errors.New("subscriber failed")
	case 2:
		panic("subscriber panicked")
	case 3:
		panic(errors.New("subscriber panicked with an error"))
	case 4:
		var m map[string]int
		m["x"] = 1
		return nil
	case 5:
		panic(storetypes.ErrorOutOfGas{Descriptor: "out of gas in subscriber"})
	default:
		panic(storetypes.ErrorGasOverflow{Descriptor: "gas overflow in subscriber"})
	}
}

func (s c17Sub) AfterEpochEnd(ctx sdk.Context, id string, n int64) error    { return s.act(ctx) }
func (s c17Sub) BeforeEpochStart(ctx sdk.Context, id string, n int64) error { return s.act(ctx) }
func (s c17Sub) GetModuleName() string                                      { return fmt.Sprintf("sub%d", s.idx) }

func c17Run(before bool) {
	key := storetypes.NewKVStoreKey("hooks")
	ms := vNewMS("hooks")
	ctx := vNewCtx(ms, vTimeFromNanos(1000), 5)
	ctx.KVStore(key).Set([]byte("shared"), []byte{99})
	ran := &[]int{}
	var subs []EpochHooks
	outcomes := make([]int, 3)
	for i := 0; i < 3; i++ {
		outcomes[i] = vChoose(fmt.Sprintf("outcome_%d", i), 7)
		subs = append(subs, c17Sub{idx: i, outcome: outcomes[i], ran: ran, key: key})
	}
	h := NewMultiEpochHooks(subs...)
	vReach("reach")
	escaped := vPanics(func() {
		if before {
			_ = h.BeforeEpochStart(ctx, "day", 7)
		} else {
			_ = h.AfterEpochEnd(ctx, "day", 7)
		}
	})
	// the first out-of-gas subscriber (if any) stops the walk by propagating its panic
	firstOOG := -1
	for i, o := range outcomes {
		if o >= 5 {
			firstOOG = i
			break
		}
	}
	vAssert(escaped == (firstOOG >= 0), "panic-escapes-iff-out-of-gas")
	last := 2
	if firstOOG >= 0 {
		last = firstOOG
	}
	vAssert(len(*ran) == last+1, "every-subscriber-before-the-out-of-gas-one-ran")
	// parent store: exactly the writes of the subscribers that returned nil
	st := ctx.KVStore(key)
	wantShared := byte(99)
	for i := 0; i <= last; i++ {
		own := st.Get([]byte(fmt.Sprintf("own-%d", i)))
		if outcomes[i] == 0 {
			vAssert(len(own) == 1 && own[0] == byte(1+i), "successful-subscriber-writes-kept")
			wantShared = byte(10 + i)
		} else {
			vAssert(own == nil, "failed-subscriber-writes-discarded")
		}
	}
	sh := st.Get([]byte("shared"))
	vAssert(len(sh) == 1 && sh[0] == wantShared, "shared-key-holds-last-successful-write")
}

func VH_C17_hooks_after_epoch_end()    { c17Run(false) }
func VH_C17_hooks_before_epoch_start() { c17Run(true) }
