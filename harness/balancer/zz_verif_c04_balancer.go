package balancer

// C04 harness (balancer all-asset join in a non-pool ratio): the result of CalcJoinPoolShares equals the composition
// of the proportional join and the single-asset join of the leftover, the latter priced against the reserves and
// share supply AFTER the proportional part. osmomath.Pow is an uninterpreted function (its accuracy is outside the
// claim); natively the real Pow runs on both sides.

import (
	"math/big"

	sdk "github.com/cosmos/cosmos-sdk/types"

	"github.com/osmosis-labs/osmosis/osmomath"
	"github.com/osmosis-labs/osmosis/v31/x/gamm/types"
)

func c04PowStub(base osmomath.Dec, exp osmomath.Dec) osmomath.Dec {
	return osmomath.NewDecFromBigIntWithPrec(vUF("pow", base.BigIntMut(), exp.BigIntMut()), 18)
}

func c04bInt(x *big.Int) osmomath.Int { return osmomath.NewIntFromBigInt(new(big.Int).Set(x)) }

func c04bPool(r1, r2, shares *big.Int) *Pool {
	w := osmomath.NewInt(GuaranteedWeightPrecision)
	return &Pool{
		Address: "pool", Id: 1,
		PoolParams:  PoolParams{SwapFee: osmomath.ZeroDec(), ExitFee: osmomath.ZeroDec()},
		TotalShares: sdk.Coin{Denom: types.GetPoolShareDenom(1), Amount: c04bInt(shares)},
		PoolAssets: []PoolAsset{
			{Token: sdk.Coin{Denom: "aaa", Amount: c04bInt(r1)}, Weight: w},
			{Token: sdk.Coin{Denom: "bbb", Amount: c04bInt(r2)}, Weight: w},
		},
		TotalWeight: w.MulRaw(2),
	}
}

func VH_C04_BalancerJoinComposition() {
	pos := func(name string, bits uint) *big.Int {
		return vNondetBigRange(name, big.NewInt(1), new(big.Int).Lsh(big.NewInt(1), bits))
	}
	r1, r2, shares := pos("reserve_aaa", 80), pos("reserve_bbb", 80), pos("total_shares", 100)
	t1, t2 := pos("in_aaa", 80), pos("in_bbb", 80)
	spread := osmomath.NewDecFromBigIntWithPrec(vNondetBigRange("spread", new(big.Int), new(big.Int).Exp(big.NewInt(10), big.NewInt(17), nil)), 18)
	vOverride("github.com/osmosis-labs/osmosis/osmomath.Pow", c04PowStub)
	// single-asset joins require the added amount to be smaller than the reserve (Pow base below two)
	vAssume(t1.Cmp(r1) < 0 && t2.Cmp(r2) < 0)
	tokensIn := sdk.Coins{{Denom: "aaa", Amount: c04bInt(t1)}, {Denom: "bbb", Amount: c04bInt(t2)}}
	p := c04bPool(r1, r2, shares)
	ctx := sdk.Context{}
	vReach("reach")
	var total osmomath.Int
	var joined sdk.Coins
	var err error
	if vPanics(func() { total, joined, err = p.CalcJoinPoolShares(ctx, tokensIn, spread) }) || err != nil {
		return // a failing join changes nothing
	}
	// composition, step by step on a second copy of the pool
	q := c04bPool(r1, r2, shares)
	n1, j1, err1 := q.CalcJoinPoolNoSwapShares(ctx, tokensIn, spread)
	vAssert(err1 == nil, "proportional-part:no-error")
	if err1 != nil {
		return
	}
	if j1.Equal(tokensIn) {
		vAssert(total.Equal(n1) && joined.Equal(tokensIn), "exact-ratio:proportional-only")
		return
	}
	q.IncreaseLiquidity(n1, j1)
	rem := tokensIn.Sub(j1...)
	sum := n1
	for _, c := range rem {
		asset, errA := q.GetPoolAsset(c.Denom)
		vAssert(errA == nil, "leftover:asset-exists")
		n2, err2 := q.calcSingleAssetJoin(c, spread, asset, q.GetTotalShares())
		vAssert(err2 == nil, "leftover:no-error")
		sum = sum.Add(n2)
		q.IncreaseLiquidity(n2, sdk.NewCoins(c))
	}
	vAssert(total.BigIntMut().Cmp(sum.BigIntMut()) == 0, "shares-equal-proportional-plus-leftover-on-updated-pool")
	vAssert(joined.Equal(tokensIn), "everything-joined")
}
