package accum

// C15 harnesses: each accumulator method as one step from an arbitrary accumulator / position state on a model
// store; single reward denomination "foo"; two positions p (acted on) and q (frame).

import (
	"math/big"

	sdk "github.com/cosmos/cosmos-sdk/types"

	"github.com/osmosis-labs/osmosis/osmomath"
)

const c15Denom = "foo"

var c15T = new(big.Int).Exp(big.NewInt(10), big.NewInt(18), nil)

func c15Dec(x *big.Int) osmomath.Dec { return osmomath.NewDecFromBigIntWithPrec(new(big.Int).Set(x), 18) }

func c15Coins(x *big.Int) sdk.DecCoins {
	if x.Sign() == 0 {
		return sdk.NewDecCoins()
	}
	return sdk.DecCoins{sdk.DecCoin{Denom: c15Denom, Amount: c15Dec(x)}}
}

func c15Amt(c sdk.DecCoins) *big.Int { return c.AmountOf(c15Denom).BigIntMut() }

func c15Nat(name string, bits uint) *big.Int {
	return vNondetBigRange(name, new(big.Int), new(big.Int).Sub(new(big.Int).Lsh(big.NewInt(1), bits), big.NewInt(1)))
}

type c15State struct {
	store              *vKV
	acc                *AccumulatorObject
	v, total           *big.Int // accumulator value per share, stored total shares
	ps, pa, pu         *big.Int // position p: shares, snapshot, unclaimed
	qs, qa, qu         *big.Int
	pExists, qExists   bool
}

// c15Setup builds an arbitrary state: accumulator (value v, total shares), positions p and q (each may be absent).
// Documented preconditions: snapshots do not exceed the accumulator value; all quantities non-negative.
func c15Setup(pMust bool) *c15State {
	s := &c15State{store: vNewKV()}
	s.v, s.total = c15Nat("v", 120), c15Nat("total", 120)
	s.ps, s.pa, s.pu = c15Nat("p_shares", 100), c15Nat("p_snapshot", 120), c15Nat("p_unclaimed", 120)
	s.qs, s.qa, s.qu = c15Nat("q_shares", 100), c15Nat("q_snapshot", 120), c15Nat("q_unclaimed", 120)
	vAssume(s.pa.Cmp(s.v) <= 0 && s.qa.Cmp(s.v) <= 0)
	if err := MakeAccumulatorWithValueAndShare(s.store, "acc", c15Coins(s.v), c15Dec(s.total)); err != nil {
		vAssume(false)
	}
	acc, err := GetAccumulator(s.store, "acc")
	if err != nil {
		vAssume(false)
	}
	s.acc = acc
	s.pExists = pMust || vNondetBool("p_exists")
	s.qExists = vNondetBool("q_exists")
	if s.pExists {
		initOrUpdatePosition(acc, c15Coins(s.pa), "p", c15Dec(s.ps), c15Coins(s.pu), nil)
	}
	if s.qExists {
		initOrUpdatePosition(acc, c15Coins(s.qa), "pq", c15Dec(s.qs), c15Coins(s.qu), nil)
	}
	return s
}

// rewards owed to a position: unclaimed + (v - snapshot) * shares, the product rounded half-even at 18 decimals
// (one Dec rounding, as documented)
func c15Owed(v, a, sh, u *big.Int) *big.Int {
	prod := new(big.Int).Mul(new(big.Int).Sub(v, a), sh)
	q, r := new(big.Int).QuoRem(prod, c15T, new(big.Int))
	twice := new(big.Int).Lsh(r, 1)
	c := twice.Cmp(c15T)
	if c > 0 || (c == 0 && q.Bit(0) == 1) {
		q.Add(q, big.NewInt(1))
	}
	return q.Add(q, u)
}

func (s *c15State) storedTotal() *big.Int {
	a, err := GetAccumulator(s.store, "acc")
	if err != nil {
		vAssert(false, "accumulator-still-exists")
		return new(big.Int)
	}
	return a.totalShares.BigIntMut()
}

func (s *c15State) checkQ(tag string) {
	rec, err := GetPosition(s.acc, "pq")
	if !s.qExists {
		vAssert(err != nil, tag+":q-still-absent")
		return
	}
	vAssert(err == nil, tag+":q-still-present")
	if err == nil {
		vAssert(rec.NumShares.BigIntMut().Cmp(s.qs) == 0 && c15Amt(rec.AccumValuePerShare).Cmp(s.qa) == 0 && c15Amt(rec.UnclaimedRewardsTotal).Cmp(s.qu) == 0, tag+":other-position-untouched")
	}
}

func (s *c15State) checkP(tag string, shares, snapshot, unclaimed *big.Int) {
	rec, err := GetPosition(s.acc, "p")
	vAssert(err == nil, tag+":p-present")
	if err == nil {
		vAssert(rec.NumShares.BigIntMut().Cmp(shares) == 0, tag+":p-shares")
		vAssert(c15Amt(rec.AccumValuePerShare).Cmp(snapshot) == 0, tag+":p-snapshot")
		vAssert(c15Amt(rec.UnclaimedRewardsTotal).Cmp(unclaimed) == 0, tag+":p-unclaimed")
	}
}

func (s *c15State) checkPUnchanged(tag string) {
	rec, err := GetPosition(s.acc, "p")
	if !s.pExists {
		vAssert(err != nil, tag+":p-still-absent")
		return
	}
	vAssert(err == nil && rec.NumShares.BigIntMut().Cmp(s.ps) == 0 && c15Amt(rec.AccumValuePerShare).Cmp(s.pa) == 0 && c15Amt(rec.UnclaimedRewardsTotal).Cmp(s.pu) == 0, tag+":p-unchanged")
}

func VH_C15_NewPosition() {
	s := c15Setup(false)
	n := c15Nat("new_shares", 100)
	vReach("reach")
	err := s.acc.NewPosition("p", c15Dec(n), nil)
	vAssert(err == nil, "no-error")
	// a fresh (or overwritten) position starts at the current accumulator value with nothing unclaimed
	s.checkP("new", n, s.v, new(big.Int))
	vAssert(s.storedTotal().Cmp(new(big.Int).Add(s.total, n)) == 0, "total-shares-increase-by-new-shares")
	s.checkQ("new")
}

func VH_C15_AddToPosition() {
	s := c15Setup(false)
	d := vNondetBigRange("delta", new(big.Int).Neg(new(big.Int).Lsh(big.NewInt(1), 100)), new(big.Int).Lsh(big.NewInt(1), 100))
	vReach("reach")
	err := s.acc.AddToPosition("p", c15Dec(d))
	if d.Sign() <= 0 || !s.pExists {
		vAssert(err != nil, "rejects-non-positive-or-unknown")
		s.checkPUnchanged("rejected")
		vAssert(s.storedTotal().Cmp(s.total) == 0, "rejected:total-unchanged")
	} else {
		vAssert(err == nil, "no-error")
		s.checkP("add", new(big.Int).Add(s.ps, d), s.v, c15Owed(s.v, s.pa, s.ps, s.pu))
		vAssert(s.storedTotal().Cmp(new(big.Int).Add(s.total, d)) == 0, "total-shares-increase-by-delta")
	}
	s.checkQ("add")
}

func VH_C15_RemoveFromPosition() {
	s := c15Setup(false)
	d := vNondetBigRange("delta", new(big.Int).Neg(new(big.Int).Lsh(big.NewInt(1), 100)), new(big.Int).Lsh(big.NewInt(1), 101))
	vAssume(s.total.Cmp(s.ps) >= 0)
	vReach("reach")
	err := s.acc.RemoveFromPosition("p", c15Dec(d))
	if d.Sign() <= 0 || !s.pExists || d.Cmp(s.ps) > 0 {
		vAssert(err != nil, "rejects-non-positive-unknown-or-too-many")
		s.checkPUnchanged("rejected")
		vAssert(s.storedTotal().Cmp(s.total) == 0, "rejected:total-unchanged")
	} else {
		vAssert(err == nil, "no-error")
		s.checkP("remove", new(big.Int).Sub(s.ps, d), s.v, c15Owed(s.v, s.pa, s.ps, s.pu))
		vAssert(s.storedTotal().Cmp(new(big.Int).Sub(s.total, d)) == 0, "total-shares-decrease-by-delta")
	}
	s.checkQ("remove")
}

func VH_C15_UpdatePosition() {
	s := c15Setup(true)
	d := vNondetBigRange("delta", new(big.Int).Neg(new(big.Int).Lsh(big.NewInt(1), 100)), new(big.Int).Lsh(big.NewInt(1), 100))
	vAssume(s.total.Cmp(s.ps) >= 0)
	vReach("reach")
	err := s.acc.UpdatePosition("p", c15Dec(d))
	if d.Sign() == 0 || new(big.Int).Add(s.ps, d).Sign() < 0 {
		vAssert(err != nil, "rejects-zero-or-overdraw")
		s.checkPUnchanged("rejected")
		vAssert(s.storedTotal().Cmp(s.total) == 0, "rejected:total-unchanged")
	} else {
		vAssert(err == nil, "no-error")
		s.checkP("update", new(big.Int).Add(s.ps, d), s.v, c15Owed(s.v, s.pa, s.ps, s.pu))
		vAssert(s.storedTotal().Cmp(new(big.Int).Add(s.total, d)) == 0, "total-shares-follow-delta")
	}
	s.checkQ("update")
}

func VH_C15_ClaimRewards() {
	s := c15Setup(false)
	vReach("reach")
	coins, dust, err := s.acc.ClaimRewards("p")
	if !s.pExists {
		vAssert(err != nil, "unknown-position-rejected")
		vAssert(s.storedTotal().Cmp(s.total) == 0, "rejected:total-unchanged")
		s.checkQ("claim-rejected")
		return
	}
	vAssert(err == nil, "no-error")
	owed := c15Owed(s.v, s.pa, s.ps, s.pu)
	whole := new(big.Int).Quo(owed, c15T)
	vAssert(coins.AmountOf(c15Denom).BigIntMut().Cmp(whole) == 0, "pays-integer-part")
	vAssert(c15Amt(dust).Cmp(new(big.Int).Sub(owed, new(big.Int).Mul(whole, c15T))) == 0, "dust-is-the-fraction")
	if s.ps.Sign() == 0 {
		_, gerr := GetPosition(s.acc, "p")
		vAssert(gerr != nil, "zero-share-position-disappears")
	} else {
		s.checkP("claim", s.ps, s.v, new(big.Int))
		// claiming again right away pays nothing
		coins2, dust2, err2 := s.acc.ClaimRewards("p")
		vAssert(err2 == nil && coins2.AmountOf(c15Denom).IsZero() && c15Amt(dust2).Sign() == 0, "second-claim-pays-nothing")
	}
	vAssert(s.storedTotal().Cmp(s.total) == 0, "total-shares-unchanged")
	s.checkQ("claim")
}

func VH_C15_DeletePosition() {
	s := c15Setup(false)
	vAssume(s.total.Cmp(s.ps) >= 0)
	vReach("reach")
	out, err := s.acc.DeletePosition("p")
	if !s.pExists {
		vAssert(err != nil, "unknown-position-rejected")
		vAssert(s.storedTotal().Cmp(s.total) == 0, "rejected:total-unchanged")
		s.checkQ("delete-rejected")
		return
	}
	vAssert(err == nil, "no-error")
	vAssert(c15Amt(out).Cmp(c15Owed(s.v, s.pa, s.ps, s.pu)) == 0, "returns-everything-owed")
	_, gerr := GetPosition(s.acc, "p")
	vAssert(gerr != nil && !s.acc.HasPosition("p"), "position-disappears")
	vAssert(s.storedTotal().Cmp(new(big.Int).Sub(s.total, s.ps)) == 0, "total-shares-decrease-by-position-shares")
	s.checkQ("delete")
}

func VH_C15_SetIntervalAndUnclaimed() {
	s := c15Setup(false)
	na := c15Nat("new_snapshot", 120)
	add := vNondetBigRange("add", new(big.Int).Neg(new(big.Int).Lsh(big.NewInt(1), 100)), new(big.Int).Lsh(big.NewInt(1), 100))
	vReach("reach")
	err := s.acc.SetPositionIntervalAccumulation("p", c15Coins(na))
	if !s.pExists {
		vAssert(err != nil, "set:unknown-position-rejected")
	} else {
		vAssert(err == nil, "set:no-error")
		s.checkP("set", s.ps, na, s.pu)
	}
	var coins sdk.DecCoins
	if add.Sign() != 0 {
		coins = sdk.DecCoins{sdk.DecCoin{Denom: c15Denom, Amount: c15Dec(add)}}
	}
	err2 := s.acc.AddToUnclaimedRewards("p", coins)
	if !s.pExists || add.Sign() < 0 {
		vAssert(err2 != nil, "unclaimed:rejects-unknown-or-negative")
		if s.pExists {
			s.checkP("unclaimed-rejected", s.ps, na, s.pu)
		}
	} else {
		vAssert(err2 == nil, "unclaimed:no-error")
		s.checkP("unclaimed", s.ps, na, new(big.Int).Add(s.pu, add))
	}
	vAssert(s.storedTotal().Cmp(s.total) == 0, "total-shares-unchanged")
	s.checkQ("set")
}

// The share total is taken from the store, not from a possibly stale in-memory object.
func VH_C15_StaleObject() {
	s := c15Setup(true)
	stale, err := GetAccumulator(s.store, "acc")
	if err != nil {
		vAssume(false)
	}
	n1, n2 := c15Nat("n1", 100), c15Nat("n2", 100)
	vReach("reach")
	vAssert(s.acc.NewPosition("r1", c15Dec(n1), nil) == nil, "first:no-error")
	vAssert(stale.NewPosition("r2", c15Dec(n2), nil) == nil, "second:no-error")
	vAssert(s.storedTotal().Cmp(new(big.Int).Add(new(big.Int).Add(s.total, n1), n2)) == 0, "both-additions-counted")
	vAssert(stale.AddToPosition("p", c15Dec(new(big.Int).Add(n1, big.NewInt(1)))) == nil, "third:no-error")
	vAssert(s.storedTotal().Cmp(new(big.Int).Add(new(big.Int).Add(new(big.Int).Add(s.total, n1), n2), new(big.Int).Add(n1, big.NewInt(1)))) == 0, "all-additions-counted")
}

// Growth then claim: the claimable amount grows by exactly growth * shares (one rounding), nothing for others.
func VH_C15_GrowthAccrual() {
	s := c15Setup(true)
	g := c15Nat("growth", 100)
	vReach("reach")
	before := c15Owed(s.v, s.pa, s.ps, s.pu)
	s.acc.AddToAccumulator(c15Coins(g))
	rec, err := GetPosition(s.acc, "p")
	vAssert(err == nil, "position-present")
	after := c15Amt(GetTotalRewards(s.acc, rec))
	want := c15Owed(new(big.Int).Add(s.v, g), s.pa, s.ps, s.pu)
	vAssert(after.Cmp(want) == 0, "claimable-follows-growth-times-shares")
	vAssert(after.Cmp(before) >= 0, "claimable-never-decreases-with-growth")
	reread, gerr := GetAccumulator(s.store, "acc")
	vAssert(gerr == nil && c15Amt(reread.valuePerShare).Cmp(new(big.Int).Add(s.v, g)) == 0, "growth-persisted")
	vAssert(s.storedTotal().Cmp(s.total) == 0, "total-shares-unchanged")
	s.checkQ("growth")
}
