package poolmanager

// C05 harnesses: the real router (RouteExactAmountIn / RouteExactAmountOut / split routes / estimate queries /
// chargeTakerFee / GetTradingPairTakerFee) is executed over a model pool module (linear-price pools whose quote
// depends on pool state) and a model bank ledger, with symbolic amounts and limits. The expected result is computed by
// the harness hop by hop from the model pools' own quote functions and the per-pair taker-fee table.

import (
	"context"
	"errors"
	"fmt"
	"sync"

	storetypes "cosmossdk.io/store/types"
	"github.com/cosmos/cosmos-sdk/codec"
	codectypes "github.com/cosmos/cosmos-sdk/codec/types"
	sdk "github.com/cosmos/cosmos-sdk/types"
	banktypes "github.com/cosmos/cosmos-sdk/x/bank/types"
	paramtypes "github.com/cosmos/cosmos-sdk/x/params/types"

	"github.com/osmosis-labs/osmosis/osmomath"
	"github.com/osmosis-labs/osmosis/v31/x/poolmanager/types"
)

// ---------------------------------------------------------------- ledger

type c05Ledger struct {
	addr  []string
	denom []string
	amt   []osmomath.Int
}

func (l *c05Ledger) get(addr, denom string) osmomath.Int {
	for i := range l.addr {
		if l.addr[i] == addr && l.denom[i] == denom {
			return l.amt[i]
		}
	}
	return osmomath.ZeroInt()
}

func (l *c05Ledger) set(addr, denom string, v osmomath.Int) {
	for i := range l.addr {
		if l.addr[i] == addr && l.denom[i] == denom {
			l.amt[i] = v
			return
		}
	}
	l.addr = append(l.addr, addr)
	l.denom = append(l.denom, denom)
	l.amt = append(l.amt, v)
}

// move is pure accounting: balances may go negative (bank refusals are outside this property's claim), so that the
// only failures on a route are the router's and the pools' own
func (l *c05Ledger) move(from, to string, coins sdk.Coins) error {
	for _, c := range coins {
		l.set(from, c.Denom, l.get(from, c.Denom).Sub(c.Amount))
		l.set(to, c.Denom, l.get(to, c.Denom).Add(c.Amount))
	}
	return nil
}

func (l *c05Ledger) clone() *c05Ledger {
	return &c05Ledger{addr: append([]string{}, l.addr...), denom: append([]string{}, l.denom...), amt: append([]osmomath.Int{}, l.amt...)}
}

type c05Bank struct{ l *c05Ledger }

func (b c05Bank) SendCoinsFromAccountToModule(ctx context.Context, senderAddr sdk.AccAddress, recipientModule string, amt sdk.Coins) error {
	return b.l.move(string(senderAddr), "module:"+recipientModule, amt)
}
func (b c05Bank) SendCoinsFromModuleToAccount(ctx context.Context, senderModule string, recipientAddr sdk.AccAddress, amt sdk.Coins) error {
	return b.l.move("module:"+senderModule, string(recipientAddr), amt)
}
func (b c05Bank) SendCoinsFromModuleToModule(ctx context.Context, senderModule, recipientModule string, amt sdk.Coins) error {
	return b.l.move("module:"+senderModule, "module:"+recipientModule, amt)
}
func (b c05Bank) SendCoins(ctx context.Context, fromAddr sdk.AccAddress, toAddr sdk.AccAddress, amt sdk.Coins) error {
	return b.l.move(string(fromAddr), string(toAddr), amt)
}
func (b c05Bank) GetAllBalances(ctx context.Context, addr sdk.AccAddress) sdk.Coins { return sdk.Coins{} }
func (b c05Bank) GetBalance(ctx context.Context, addr sdk.AccAddress, denom string) sdk.Coin {
	return sdk.NewCoin(denom, b.l.get(string(addr), denom))
}
func (b c05Bank) SetDenomMetaData(ctx context.Context, denomMetaData banktypes.Metadata) {}

// ---------------------------------------------------------------- model pools

type c05Pool struct {
	id       uint64
	d0, d1   string
	num, den int64 // d1 per d0 = num/den (while the swap counter is even)
	spread   osmomath.Dec
	n        int // executed swaps; odd counts worsen the quote by 10%
}

func (p *c05Pool) Reset()                                   {}
func (p *c05Pool) ProtoMessage()                            {}
func (p *c05Pool) String() string                           { return "c05Pool" }
func (p *c05Pool) GetAddress() sdk.AccAddress               { return sdk.AccAddress(fmt.Sprintf("pool%d", p.id)) }
func (p *c05Pool) GetId() uint64                            { return p.id }
func (p *c05Pool) GetSpreadFactor(ctx sdk.Context) osmomath.Dec { return p.spread }
func (p *c05Pool) IsActive(ctx sdk.Context) bool            { return true }
func (p *c05Pool) GetPoolDenoms(sdk.Context) []string       { return []string{p.d0, p.d1} }
func (p *c05Pool) SpotPrice(ctx sdk.Context, quoteAssetDenom string, baseAssetDenom string) (osmomath.BigDec, error) {
	return osmomath.OneBigDec(), nil
}
func (p *c05Pool) GetType() types.PoolType          { return types.Balancer }
func (p *c05Pool) AsSerializablePool() types.PoolI { return p }

type c05Mod struct {
	pools []*c05Pool
	led   *c05Ledger
}

func (m *c05Mod) byID(id uint64) *c05Pool {
	for _, p := range m.pools {
		if p.id == id {
			return p
		}
	}
	return nil
}

// quoteOut: output for an exact input (rounded down, in the pool's favour)
func c05QuoteOut(p *c05Pool, n int, in sdk.Coin, outDenom string, sf osmomath.Dec) (osmomath.Int, error) {
	var num, den int64
	switch {
	case in.Denom == p.d0 && outDenom == p.d1:
		num, den = p.num, p.den
	case in.Denom == p.d1 && outDenom == p.d0:
		num, den = p.den, p.num
	default:
		return osmomath.Int{}, errors.New("denoms not in pool")
	}
	eff := in.Amount.ToLegacyDec().Mul(osmomath.OneDec().Sub(sf)).TruncateInt()
	out := eff.MulRaw(num).QuoRaw(den)
	if n%2 == 1 {
		out = out.MulRaw(9).QuoRaw(10)
	}
	return out, nil
}

// quoteIn: input needed for an exact output (rounded up, in the pool's favour)
func c05QuoteIn(p *c05Pool, n int, out sdk.Coin, inDenom string, sf osmomath.Dec) (osmomath.Int, error) {
	var num, den int64
	switch {
	case inDenom == p.d0 && out.Denom == p.d1:
		num, den = p.num, p.den
	case inDenom == p.d1 && out.Denom == p.d0:
		num, den = p.den, p.num
	default:
		return osmomath.Int{}, errors.New("denoms not in pool")
	}
	raw := out.Amount
	if n%2 == 1 {
		raw = raw.MulRaw(10).AddRaw(8).QuoRaw(9)
	}
	eff := raw.MulRaw(den).AddRaw(num - 1).QuoRaw(num)
	in := eff.ToLegacyDec().QuoRoundUp(osmomath.OneDec().Sub(sf)).Ceil().TruncateInt()
	return in, nil
}

func (m *c05Mod) InitializePool(ctx sdk.Context, pool types.PoolI, creatorAddress sdk.AccAddress) error {
	return nil
}
func (m *c05Mod) GetPool(ctx sdk.Context, poolId uint64) (types.PoolI, error) {
	p := m.byID(poolId)
	if p == nil {
		return nil, errors.New("no such pool")
	}
	return p, nil
}
func (m *c05Mod) GetPools(ctx sdk.Context) ([]types.PoolI, error) { return nil, nil }
func (m *c05Mod) GetPoolDenoms(ctx sdk.Context, poolId uint64) ([]string, error) {
	return m.byID(poolId).GetPoolDenoms(ctx), nil
}
func (m *c05Mod) CalculateSpotPrice(ctx sdk.Context, poolId uint64, quoteAssetDenom string, baseAssetDenom string) (osmomath.BigDec, error) {
	return osmomath.OneBigDec(), nil
}
func (m *c05Mod) SwapExactAmountIn(ctx sdk.Context, sender sdk.AccAddress, pool types.PoolI, tokenIn sdk.Coin, tokenOutDenom string, tokenOutMinAmount osmomath.Int, spreadFactor osmomath.Dec) (osmomath.Int, error) {
	p := pool.(*c05Pool)
	out, err := c05QuoteOut(p, p.n, tokenIn, tokenOutDenom, spreadFactor)
	if err != nil {
		return osmomath.Int{}, err
	}
	if !out.IsPositive() {
		return osmomath.Int{}, errors.New("token amount must be positive")
	}
	if out.LT(tokenOutMinAmount) {
		return osmomath.Int{}, errors.New("less than min amount")
	}
	if err := m.led.move(string(sender), string(p.GetAddress()), sdk.Coins{tokenIn}); err != nil {
		return osmomath.Int{}, err
	}
	if err := m.led.move(string(p.GetAddress()), string(sender), sdk.Coins{sdk.NewCoin(tokenOutDenom, out)}); err != nil {
		return osmomath.Int{}, err
	}
	p.n++
	return out, nil
}
func (m *c05Mod) CalcOutAmtGivenIn(ctx sdk.Context, poolI types.PoolI, tokenIn sdk.Coin, tokenOutDenom string, spreadFactor osmomath.Dec) (sdk.Coin, error) {
	p := poolI.(*c05Pool)
	out, err := c05QuoteOut(p, p.n, tokenIn, tokenOutDenom, spreadFactor)
	if err != nil {
		return sdk.Coin{}, err
	}
	return sdk.Coin{Denom: tokenOutDenom, Amount: out}, nil
}
func (m *c05Mod) SwapExactAmountOut(ctx sdk.Context, sender sdk.AccAddress, pool types.PoolI, tokenInDenom string, tokenInMaxAmount osmomath.Int, tokenOut sdk.Coin, spreadFactor osmomath.Dec) (osmomath.Int, error) {
	p := pool.(*c05Pool)
	in, err := c05QuoteIn(p, p.n, tokenOut, tokenInDenom, spreadFactor)
	if err != nil {
		return osmomath.Int{}, err
	}
	if !in.IsPositive() {
		return osmomath.Int{}, errors.New("token amount must be positive")
	}
	if in.GT(tokenInMaxAmount) {
		return osmomath.Int{}, errors.New("more than max amount")
	}
	if err := m.led.move(string(sender), string(p.GetAddress()), sdk.Coins{sdk.NewCoin(tokenInDenom, in)}); err != nil {
		return osmomath.Int{}, err
	}
	if err := m.led.move(string(p.GetAddress()), string(sender), sdk.Coins{tokenOut}); err != nil {
		return osmomath.Int{}, err
	}
	p.n++
	return in, nil
}
func (m *c05Mod) CalcInAmtGivenOut(ctx sdk.Context, poolI types.PoolI, tokenOut sdk.Coin, tokenInDenom string, spreadFactor osmomath.Dec) (sdk.Coin, error) {
	p := poolI.(*c05Pool)
	in, err := c05QuoteIn(p, p.n, tokenOut, tokenInDenom, spreadFactor)
	if err != nil {
		return sdk.Coin{}, err
	}
	return sdk.Coin{Denom: tokenInDenom, Amount: in}, nil
}
func (m *c05Mod) GetTotalPoolLiquidity(ctx sdk.Context, poolId uint64) (sdk.Coins, error) {
	return nil, nil
}
func (m *c05Mod) GetTotalLiquidity(ctx sdk.Context) (sdk.Coins, error) { return nil, nil }

type c05Staking struct{}

func (c05Staking) BondDenom(ctx context.Context) (string, error) { return "uosmo", nil }

type c05Protorev struct{}

func (c05Protorev) GetPoolForDenomPair(ctx sdk.Context, baseDenom, denomToMatch string) (uint64, error) {
	return 0, errors.New("no osmo-paired pool")
}

// ---------------------------------------------------------------- world

type c05World struct {
	k      *Keeper
	ctx    sdk.Context
	ms     *vMS
	led    *c05Ledger
	mod    *c05Mod
	sender sdk.AccAddress
	white  bool
}

const c05Collector = "module:taker_fee_collector"

var c05DefaultFee = osmomath.MustNewDecFromStr("0.001")

// per-pair overrides: every ordered pair that a mis-keyed lookup could hit has its own fee
var c05Overrides = []struct {
	in, out string
	fee     string
}{
	{"uaa", "ubb", "0.002"}, {"uaa", "ucc", "0.005"}, {"ubb", "ucc", "0.003"}, {"ucc", "ubb", "0.004"}, {"ubb", "uaa", "0.006"}, {"ucc", "uaa", "0.007"},
}

func c05Fee(in, out string) osmomath.Dec {
	for _, o := range c05Overrides {
		if o.in == in && o.out == out {
			return osmomath.MustNewDecFromStr(o.fee)
		}
	}
	return c05DefaultFee
}

var c05White bool

func c05DefaultTakerFeeStub(k *Keeper, ctx sdk.Context) osmomath.Dec { return c05DefaultFee }
func c05SubspaceGetStub(s paramtypes.Subspace, ctx sdk.Context, key []byte, ptr interface{}) {
	if p, ok := ptr.(*[]string); ok {
		if c05White {
			*p = []string{vAddrTable[0]}
		} else {
			*p = []string{}
		}
		return
	}
	panic("c05: unexpected param read")
}
func c05AddrStub(address string) (sdk.AccAddress, error) { return sdk.AccAddress(address), nil }
func c05AddrString(aa sdk.AccAddress) string              { return string(aa) }

func c05Setup() *c05World {
	w := &c05World{led: &c05Ledger{}}
	w.white = vNondetBool("whitelisted")
	c05White = w.white
	vOverride("(*github.com/osmosis-labs/osmosis/v31/x/poolmanager.Keeper).GetDefaultTakerFee", c05DefaultTakerFeeStub)
	vOverride("(github.com/cosmos/cosmos-sdk/x/params/types.Subspace).Get", c05SubspaceGetStub)
	vOverride("github.com/cosmos/cosmos-sdk/types.AccAddressFromBech32", c05AddrStub)
	vOverride("(github.com/cosmos/cosmos-sdk/types.AccAddress).String", c05AddrString)
	vOverride("sort.Slice", vSortSlice)
	key := storetypes.NewKVStoreKey(types.StoreKey)
	w.ms = vNewMS(types.StoreKey)
	w.ctx = vNewCtx(w.ms, vTimeFromNanos(int64(1700000000)*1000000000), 10)
	w.mod = &c05Mod{led: w.led}
	specs := []struct {
		d0, d1   string
		num, den int64
		spread   string
	}{{"uaa", "ubb", 3, 2, "0.003"}, {"ubb", "ucc", 5, 7, "0.001"}, {"ucc", "ubb", 4, 3, "0.002"}, {"uaa", "ucc", 11, 10, "0.0025"}}
	parity := vChoose("prior_swaps", 2)
	for i, s := range specs {
		w.mod.pools = append(w.mod.pools, &c05Pool{id: uint64(i + 1), d0: s.d0, d1: s.d1, num: s.num, den: s.den, spread: osmomath.MustNewDecFromStr(s.spread), n: parity})
	}
	w.k = &Keeper{
		storeKey:                                 key,
		bankKeeper:                               c05Bank{w.led},
		stakingKeeper:                            c05Staking{},
		protorevKeeper:                           c05Protorev{},
		routes:                                   map[types.PoolType]types.PoolModuleI{types.Balancer: w.mod},
		cachedPoolModules:                        &sync.Map{},
		cachedTakerFeeShareAgreementMap:          map[string]types.TakerFeeShareAgreement{},
		cachedRegisteredAlloyPoolByAlloyDenomMap: map[string]types.AlloyContractTakerFeeShareState{},
	}
	if vNative() {
		sdk.GetConfig().SetBech32PrefixForAccount("osmo", "osmopub")
		tkey := storetypes.NewTransientStoreKey("transient_params")
		cdc := codec.NewProtoCodec(codectypes.NewInterfaceRegistry())
		ss := paramtypes.NewSubspace(cdc, codec.NewLegacyAmino(), key, tkey, types.ModuleName).WithKeyTable(types.ParamKeyTable())
		w.k.paramSpace = ss
		params := types.DefaultParams()
		params.TakerFeeParams.DefaultTakerFee = c05DefaultFee
		if w.white {
			params.TakerFeeParams.ReducedFeeWhitelist = []string{vAddrTable[0]}
		} else {
			params.TakerFeeParams.ReducedFeeWhitelist = []string{}
		}
		w.k.SetParams(w.ctx, params)
	}
	for i := range specs {
		w.k.SetPoolRoute(w.ctx, uint64(i+1), types.Balancer)
	}
	for _, o := range c05Overrides {
		w.k.SetDenomPairTakerFee(w.ctx, o.in, o.out, osmomath.MustNewDecFromStr(o.fee))
	}
	a, err := sdk.AccAddressFromBech32(vAddrTable[0])
	if err != nil {
		vAssume(false)
	}
	w.sender = a
	return w
}

func c05Amt(name string) osmomath.Int {
	return osmomath.NewIntFromBigInt(vNondetBigRange(name, osmomath.NewInt(1).BigInt(), osmomath.NewInt(1000000000000).BigInt()))
}

type c05Hop struct {
	pool    uint64
	in, out string
}

var c05Routes = [][]c05Hop{
	{{1, "uaa", "ubb"}},
	{{1, "uaa", "ubb"}, {2, "ubb", "ucc"}},
	{{1, "uaa", "ubb"}, {2, "ubb", "ucc"}, {3, "ucc", "ubb"}},
	{{4, "uaa", "ucc"}, {3, "ucc", "ubb"}},
}

func c05InRoute(r []c05Hop) []types.SwapAmountInRoute {
	var out []types.SwapAmountInRoute
	for _, h := range r {
		out = append(out, types.SwapAmountInRoute{PoolId: h.pool, TokenOutDenom: h.out})
	}
	return out
}

func c05OutRoute(r []c05Hop) []types.SwapAmountOutRoute {
	var out []types.SwapAmountOutRoute
	for _, h := range r {
		out = append(out, types.SwapAmountOutRoute{PoolId: h.pool, TokenInDenom: h.in})
	}
	return out
}

// expected exact-in result: hop by hop with the per-hop taker fee, on a copy of the ledger
type c05Exp struct {
	ok    bool
	final osmomath.Int
	led   *c05Ledger
}

func (w *c05World) expectIn(r []c05Hop, amtIn osmomath.Int, lastMin osmomath.Int, led *c05Ledger, ns []int) c05Exp {
	cur := amtIn
	s := string(w.sender)
	for i, h := range r {
		p := w.mod.byID(h.pool)
		afterFee := cur
		if !w.white {
			afterFee = osmomath.OneDec().Sub(c05Fee(h.in, h.out)).MulInt(cur).TruncateInt()
			fee := cur.Sub(afterFee)
			if led.move(s, c05Collector, sdk.NewCoins(sdk.NewCoin(h.in, fee))) != nil {
				return c05Exp{}
			}
		}
		out, _ := c05QuoteOut(p, ns[h.pool-1], sdk.NewCoin(h.in, afterFee), h.out, p.spread)
		min := osmomath.OneInt()
		if i == len(r)-1 {
			min = lastMin
		}
		if !out.IsPositive() || out.LT(min) {
			return c05Exp{}
		}
		if led.move(s, string(p.GetAddress()), sdk.Coins{sdk.NewCoin(h.in, afterFee)}) != nil {
			return c05Exp{}
		}
		if led.move(string(p.GetAddress()), s, sdk.Coins{sdk.NewCoin(h.out, out)}) != nil {
			return c05Exp{}
		}
		ns[h.pool-1]++
		cur = out
	}
	return c05Exp{ok: true, final: cur, led: led}
}

func (w *c05World) counters() []int {
	var ns []int
	for _, p := range w.mod.pools {
		ns = append(ns, p.n)
	}
	return ns
}

func c05SameLedger(a, b *c05Ledger, accts []string) bool {
	ok := true
	for _, ac := range accts {
		for _, d := range []string{"uaa", "ubb", "ucc"} {
			ok = ok && a.get(ac, d).Equal(b.get(ac, d))
		}
	}
	return ok
}

func (w *c05World) accounts() []string {
	out := []string{string(w.sender), c05Collector}
	for _, p := range w.mod.pools {
		out = append(out, string(p.GetAddress()))
	}
	return out
}

func VH_C05_exact_in_1hop()           { c05ExactIn(0) }
func VH_C05_exact_in_2hop()           { c05ExactIn(1) }
func VH_C05_exact_in_3hop_revisiting() { c05ExactIn(2) }
func VH_C05_exact_in_2hop_other()     { c05ExactIn(3) }

func c05ExactIn(ri int) {
	vConfig("lazy_math", 1)
	w := c05Setup()
	r := c05Routes[ri]
	amt := c05Amt("amount_in")
	minOut := c05Amt("min_out")
	before := w.led.clone()
	ns0 := w.counters()
	// estimate on the same state: no state change
	est, estErr := w.k.MultihopEstimateOutGivenExactAmountIn(w.ctx, c05InRoute(r), sdk.NewCoin(r[0].in, amt))
	vAssert(c05SameLedger(before, w.led, w.accounts()), "exact-in:estimate-leaves-balances")
	for i, p := range w.mod.pools {
		vAssert(p.n == ns0[i], "exact-in:estimate-leaves-pools")
	}
	exp := w.expectIn(r, amt, minOut, before.clone(), w.counters())
	expNoLimit := w.expectIn(r, amt, osmomath.OneInt(), before.clone(), w.counters())
	out, err := w.k.RouteExactAmountIn(w.ctx, w.sender, c05InRoute(r), sdk.NewCoin(r[0].in, amt), minOut)
	vAssert((err == nil) == exp.ok, "exact-in:succeeds-iff-composition-succeeds")
	if err != nil {
		vReach("reach-fail")
		return
	}
	vReach("reach")
	vAssert(out.Equal(exp.final), "exact-in:route-equals-composition")
	vAssert(out.GTE(minOut), "exact-in:min-out-respected")
	vAssert(c05SameLedger(exp.led, w.led, w.accounts()), "exact-in:balances-equal-composition")
	// the estimate query has no sender: it quotes the non-whitelisted price
	if expNoLimit.ok && estErr == nil && !w.white {
		vAssert(est.Equal(out), "exact-in:estimate-equals-execution")
	}
	if !w.white {
		vAssert(estErr == nil, "exact-in:estimate-succeeds-when-execution-does")
	}
}

// expected exact-out: quotes walk back from the last hop; execution pays hop by hop
func (w *c05World) expectOut(r []c05Hop, amtOut osmomath.Int, led *c05Ledger) (ok bool, charged osmomath.Int, pre0 osmomath.Int) {
	s := string(w.sender)
	need := make([]osmomath.Int, len(r))   // pool input of hop i
	withFee := make([]osmomath.Int, len(r)) // pool input plus taker fee of hop i
	cur := amtOut
	for i := len(r) - 1; i >= 0; i-- {
		h := r[i]
		p := w.mod.byID(h.pool)
		in, _ := c05QuoteIn(p, p.n, sdk.NewCoin(h.out, cur), h.in, p.spread)
		need[i] = in
		// the estimate applies the pair's fee whether or not the sender is whitelisted (router.go)
		withFee[i] = in.ToLegacyDec().Quo(osmomath.OneDec().Sub(c05Fee(h.in, h.out))).Ceil().TruncateInt()
		cur = withFee[i]
	}
	for i, h := range r {
		p := w.mod.byID(h.pool)
		hopOut := amtOut
		if i != len(r)-1 {
			hopOut = withFee[i+1]
		}
		if !need[i].IsPositive() {
			return false, osmomath.Int{}, osmomath.Int{}
		}
		if led.move(s, string(p.GetAddress()), sdk.Coins{sdk.NewCoin(h.in, need[i])}) != nil {
			return false, osmomath.Int{}, osmomath.Int{}
		}
		if led.move(string(p.GetAddress()), s, sdk.Coins{sdk.NewCoin(h.out, hopOut)}) != nil {
			return false, osmomath.Int{}, osmomath.Int{}
		}
		if !w.white {
			if led.move(s, c05Collector, sdk.NewCoins(sdk.NewCoin(h.in, withFee[i].Sub(need[i])))) != nil {
				return false, osmomath.Int{}, osmomath.Int{}
			}
		}
	}
	if w.white {
		return true, need[0], need[0]
	}
	return true, withFee[0], need[0]
}

func VH_C05_exact_out_1hop()           { c05ExactOut(0) }
func VH_C05_exact_out_2hop()           { c05ExactOut(1) }
func VH_C05_exact_out_3hop_revisiting() { c05ExactOut(2) }
func VH_C05_exact_out_2hop_other()     { c05ExactOut(3) }

func c05ExactOut(ri int) {
	vConfig("lazy_math", 1)
	w := c05Setup()
	r := c05Routes[ri]
	amt := c05Amt("amount_out")
	maxIn := c05Amt("max_in")
	last := r[len(r)-1]
	before := w.led.clone()
	est, estErr := w.k.MultihopEstimateInGivenExactAmountOut(w.ctx, c05OutRoute(r), sdk.NewCoin(last.out, amt))
	vAssert(c05SameLedger(before, w.led, w.accounts()), "exact-out:estimate-leaves-balances")
	expLed := before.clone()
	ok, charged, pre0 := w.expectOut(r, amt, expLed)
	in, err := w.k.RouteExactAmountOut(w.ctx, w.sender, c05OutRoute(r), maxIn, sdk.NewCoin(last.out, amt))
	if err != nil {
		vReach("reach-fail")
		// a feasible composition within the limit must not be refused
		vAssert(!(ok && charged.LTE(maxIn)), "exact-out:feasible-swap-within-limit-succeeds")
		return
	}
	vReach("reach")
	vAssert(ok && pre0.LTE(maxIn), "exact-out:succeeds-only-if-composition-succeeds")
	vAssert(in.Equal(charged), "exact-out:route-equals-composition")
	vAssert(c05SameLedger(expLed, w.led, w.accounts()), "exact-out:balances-equal-composition")
	spent := before.get(string(w.sender), r[0].in).Sub(w.led.get(string(w.sender), r[0].in))
	if len(r) < 3 { // routes that do not return to the input denom
		vAssert(spent.Equal(in), "exact-out:reported-input-is-what-the-sender-paid")
	}
	vAssert(in.LTE(maxIn), "exact-out:max-in-respected")
	if estErr == nil && !w.white {
		vAssert(est.Equal(in), "exact-out:estimate-equals-execution")
	}
	vAssert(estErr == nil, "exact-out:estimate-succeeds-when-execution-does")
}

// split route, exact in: two legs ua->ub->uc and ua->uc; total = sum of legs, limit on the total
func VH_C05_split_exact_in() {
	vConfig("lazy_math", 1)
	w := c05Setup()
	a1, a2 := c05Amt("leg1_in"), c05Amt("leg2_in")
	minOut := c05Amt("min_out")
	before := w.led.clone()
	ns := w.counters()
	leg1 := []c05Hop{{1, "uaa", "ubb"}, {2, "ubb", "ucc"}}
	leg2 := []c05Hop{{4, "uaa", "ucc"}}
	expLed := before.clone()
	e1 := w.expectIn(leg1, a1, osmomath.ZeroInt(), expLed, ns)
	var e2 c05Exp
	if e1.ok {
		e2 = w.expectIn(leg2, a2, osmomath.ZeroInt(), expLed, ns)
	}
	routes := []types.SwapAmountInSplitRoute{
		{Pools: c05InRoute(leg1), TokenInAmount: a1},
		{Pools: c05InRoute(leg2), TokenInAmount: a2},
	}
	out, err := w.k.SplitRouteExactAmountIn(w.ctx, w.sender, routes, "uaa", minOut)
	expOK := e1.ok && e2.ok && e1.final.Add(e2.final).GTE(minOut)
	vAssert((err == nil) == expOK, "split-in:succeeds-iff-legs-succeed-and-total-meets-min")
	if err != nil {
		vReach("reach-fail")
		return
	}
	vReach("reach")
	vAssert(out.Equal(e1.final.Add(e2.final)), "split-in:total-is-sum-of-legs")
	vAssert(out.GTE(minOut), "split-in:min-out-respected")
	vAssert(c05SameLedger(expLed, w.led, w.accounts()), "split-in:balances-equal-composition")
}
