package keeper

// C11 harnesses (supply neutrality): mintOsmoTokensAndDelegate and forceUndelegateAndBurnOsmoTokens run on store-backed
// model bank and staking keepers (so that the cache-context rollback of ApplyFuncIfNoError is the real one), with
// SYMBOLIC amounts, prior delegation and failure points of the staking calls. The OSMO supply reported to users
// (bank supply + supply offset) must be unchanged on every outcome; a failed call leaves every balance untouched; a
// successful one moves exactly the requested stake.

import (
	"context"
	"errors"
	"time"

	addresscodec "cosmossdk.io/core/address"
	storetypes "cosmossdk.io/store/types"
	"github.com/cosmos/cosmos-sdk/codec"
	codectypes "github.com/cosmos/cosmos-sdk/codec/types"
	sdk "github.com/cosmos/cosmos-sdk/types"
	paramtypes "github.com/cosmos/cosmos-sdk/x/params/types"
	stakingtypes "github.com/cosmos/cosmos-sdk/x/staking/types"

	"github.com/osmosis-labs/osmosis/osmomath"
	lockuptypes "github.com/osmosis-labs/osmosis/v31/x/lockup/types"
	"github.com/osmosis-labs/osmosis/v31/x/superfluid/types"
)

var c11Key = storetypes.NewKVStoreKey("c11model")

func c11Get(ctx context.Context, key string) osmomath.Int {
	bz := sdk.UnwrapSDKContext(ctx).KVStore(c11Key).Get([]byte(key))
	if bz == nil {
		return osmomath.ZeroInt()
	}
	var v osmomath.Int
	if err := v.Unmarshal(bz); err != nil {
		panic(err)
	}
	return v
}

func c11Set(ctx context.Context, key string, v osmomath.Int) {
	bz, err := v.Marshal()
	if err != nil {
		panic(err)
	}
	sdk.UnwrapSDKContext(ctx).KVStore(c11Key).Set([]byte(key), bz)
}

func c11Move(ctx context.Context, from, to string, coins sdk.Coins) error {
	for _, c := range coins {
		if c.Amount.IsNegative() || c11Get(ctx, "bal|"+from+"|"+c.Denom).LT(c.Amount) {
			return errors.New("insufficient funds")
		}
	}
	for _, c := range coins {
		c11Set(ctx, "bal|"+from+"|"+c.Denom, c11Get(ctx, "bal|"+from+"|"+c.Denom).Sub(c.Amount))
		c11Set(ctx, "bal|"+to+"|"+c.Denom, c11Get(ctx, "bal|"+to+"|"+c.Denom).Add(c.Amount))
	}
	return nil
}

type c11Bank struct{}

func (c11Bank) GetBalance(ctx context.Context, addr sdk.AccAddress, denom string) sdk.Coin {
	return sdk.NewCoin(denom, c11Get(ctx, "bal|"+string(addr)+"|"+denom))
}
func (c11Bank) MintCoins(ctx context.Context, moduleName string, amt sdk.Coins) error {
	for _, c := range amt {
		c11Set(ctx, "bal|module:"+moduleName+"|"+c.Denom, c11Get(ctx, "bal|module:"+moduleName+"|"+c.Denom).Add(c.Amount))
		c11Set(ctx, "sup|"+c.Denom, c11Get(ctx, "sup|"+c.Denom).Add(c.Amount))
	}
	return nil
}
func (c11Bank) BurnCoins(ctx context.Context, moduleName string, amounts sdk.Coins) error {
	for _, c := range amounts {
		if c11Get(ctx, "bal|module:"+moduleName+"|"+c.Denom).LT(c.Amount) {
			return errors.New("insufficient funds to burn")
		}
	}
	for _, c := range amounts {
		c11Set(ctx, "bal|module:"+moduleName+"|"+c.Denom, c11Get(ctx, "bal|module:"+moduleName+"|"+c.Denom).Sub(c.Amount))
		c11Set(ctx, "sup|"+c.Denom, c11Get(ctx, "sup|"+c.Denom).Sub(c.Amount))
	}
	return nil
}
func (c11Bank) AddSupplyOffset(ctx context.Context, denom string, offsetAmount osmomath.Int) {
	c11Set(ctx, "off|"+denom, c11Get(ctx, "off|"+denom).Add(offsetAmount))
}
func (c11Bank) SendCoinsFromAccountToModule(ctx context.Context, senderAddr sdk.AccAddress, recipientModule string, amt sdk.Coins) error {
	return c11Move(ctx, string(senderAddr), "module:"+recipientModule, amt)
}
func (c11Bank) SendCoinsFromModuleToAccount(ctx context.Context, senderModule string, recipientAddr sdk.AccAddress, amt sdk.Coins) error {
	return c11Move(ctx, "module:"+senderModule, string(recipientAddr), amt)
}
func (c11Bank) GetSupply(ctx context.Context, denom string) sdk.Coin {
	return sdk.NewCoin(denom, c11Get(ctx, "sup|"+denom))
}

// model staking keeper: one validator, shares 1:1 with tokens, failure points chosen by the harness
type c11Staking struct {
	delegateFailsEarly, delegateFailsLate, undelegateFailsLate bool
}

func (c11Staking) BondDenom(ctx context.Context) (string, error) { return "uosmo", nil }
func (c11Staking) GetAllValidators(ctx context.Context) ([]stakingtypes.Validator, error) {
	return nil, nil
}
func (c11Staking) GetValidator(ctx context.Context, addr sdk.ValAddress) (stakingtypes.Validator, error) {
	return stakingtypes.Validator{OperatorAddress: string(addr), Tokens: osmomath.OneInt(), DelegatorShares: osmomath.OneDec()}, nil
}
func (c11Staking) ValidateUnbondAmount(ctx context.Context, delAddr sdk.AccAddress, valAddr sdk.ValAddress, amt osmomath.Int) (osmomath.Dec, error) {
	d := c11Get(ctx, "del|"+string(delAddr))
	if d.IsZero() {
		return osmomath.Dec{}, stakingtypes.ErrNoDelegation
	}
	if amt.GT(d) {
		return osmomath.Dec{}, errors.New("invalid shares amount")
	}
	return amt.ToLegacyDec(), nil
}
func (s c11Staking) Delegate(ctx context.Context, delAddr sdk.AccAddress, bondAmt osmomath.Int, tokenSrc stakingtypes.BondStatus, validator stakingtypes.Validator, subtractAccount bool) (osmomath.Dec, error) {
	if s.delegateFailsEarly {
		return osmomath.Dec{}, errors.New("validator jailed")
	}
	if err := c11Move(ctx, string(delAddr), "module:bonded_tokens_pool", sdk.Coins{sdk.NewCoin("uosmo", bondAmt)}); err != nil {
		return osmomath.Dec{}, err
	}
	c11Set(ctx, "del|"+string(delAddr), c11Get(ctx, "del|"+string(delAddr)).Add(bondAmt))
	if s.delegateFailsLate {
		// a failure after partial effects: the caller's cache context must discard them
		return osmomath.Dec{}, errors.New("hook failed after delegation")
	}
	return bondAmt.ToLegacyDec(), nil
}
func (s c11Staking) InstantUndelegate(ctx context.Context, delAddr sdk.AccAddress, valAddr sdk.ValAddress, sharesAmount osmomath.Dec) (sdk.Coins, error) {
	amt := sharesAmount.TruncateInt()
	if c11Get(ctx, "del|"+string(delAddr)).LT(amt) {
		return nil, errors.New("not enough delegation shares")
	}
	c11Set(ctx, "del|"+string(delAddr), c11Get(ctx, "del|"+string(delAddr)).Sub(amt))
	// a slashed validator returns fewer tokens than shares
	tokens := osmomath.NewIntFromBigInt(vNondetBigRange("undelegated_tokens", osmomath.NewInt(0).BigInt(), osmomath.NewInt(1000000000000).BigInt()))
	vAssume(tokens.LTE(amt))
	coins := sdk.Coins{sdk.NewCoin("uosmo", tokens)}
	if err := c11Move(ctx, "module:bonded_tokens_pool", string(delAddr), coins); err != nil {
		return nil, err
	}
	if s.undelegateFailsLate {
		return nil, errors.New("hook failed after undelegation")
	}
	return coins, nil
}
func (c11Staking) GetDelegation(ctx context.Context, delAddr sdk.AccAddress, valAddr sdk.ValAddress) (stakingtypes.Delegation, error) {
	d := c11Get(ctx, "del|"+string(delAddr))
	if d.IsZero() {
		return stakingtypes.Delegation{}, stakingtypes.ErrNoDelegation
	}
	return stakingtypes.Delegation{Shares: d.ToLegacyDec()}, nil
}
func (c11Staking) UnbondingTime(ctx context.Context) (time.Duration, error) {
	return 14 * 24 * time.Hour, nil
}
func (c11Staking) GetParams(ctx context.Context) (stakingtypes.Params, error) {
	return stakingtypes.Params{}, nil
}
func (c11Staking) IterateBondedValidatorsByPower(ctx context.Context, fn func(int64, stakingtypes.ValidatorI) bool) error {
	return nil
}
func (c11Staking) TotalBondedTokens(ctx context.Context) (osmomath.Int, error) {
	return osmomath.ZeroInt(), nil
}
func (c11Staking) IterateDelegations(ctx context.Context, delegator sdk.AccAddress, fn func(int64, stakingtypes.DelegationI) bool) error {
	return nil
}
func (c11Staking) ValidatorAddressCodec() addresscodec.Codec { return nil }

func c11ValStub(address string) (sdk.ValAddress, error) { return sdk.ValAddress(address), nil }
func c11ValString(va sdk.ValAddress) string             { return string(va) }

type c11World struct {
	k    *Keeper
	ctx  sdk.Context
	acc  types.SuperfluidIntermediaryAccount
	addr string
	keys []string
}

func c11Int(name string, lo, hi int64) osmomath.Int {
	return osmomath.NewIntFromBigInt(vNondetBigRange(name, osmomath.NewInt(lo).BigInt(), osmomath.NewInt(hi).BigInt()))
}

func c11Setup(sk c11Staking) *c11World {
	if vNative() {
		sdk.GetConfig().SetBech32PrefixForValidator("osmovaloper", "osmovaloperpub")
	}
	vOverride("github.com/cosmos/cosmos-sdk/types.ValAddressFromBech32", c11ValStub)
	vOverride("(github.com/cosmos/cosmos-sdk/types.ValAddress).String", c11ValString)
	w := &c11World{}
	ms := vNewMS(types.StoreKey, "c11model")
	w.ctx = vNewCtx(ms, vTimeFromNanos(int64(1700000000)*1000000000), 10)
	w.k = &Keeper{storeKey: storetypes.NewKVStoreKey(types.StoreKey), bk: c11Bank{}, sk: sk}
	val := sdk.ValAddress("validator___________").String()
	w.acc = types.SuperfluidIntermediaryAccount{Denom: "gamm/pool/1", ValAddr: val, GaugeId: 1}
	w.addr = string(w.acc.GetAccAddress())
	// arbitrary prior state: supply, offset (negative: earlier superfluid mints), intermediary delegation and bonded pool
	sup := c11Int("supply", 0, 1000000000000000)
	off := c11Int("minted_before", 0, 1000000000000)
	del := c11Int("delegated_before", 0, 1000000000000)
	vAssume(del.LTE(off) && off.LTE(sup))
	c11Set(w.ctx, "sup|uosmo", sup)
	c11Set(w.ctx, "off|uosmo", off.Neg())
	c11Set(w.ctx, "del|"+w.addr, del)
	c11Set(w.ctx, "bal|module:bonded_tokens_pool|uosmo", del.Add(c11Int("other_bonded", 0, 1000000000000)))
	w.keys = []string{"sup|uosmo", "off|uosmo", "del|" + w.addr, "bal|module:bonded_tokens_pool|uosmo", "bal|" + w.addr + "|uosmo", "bal|module:superfluid|uosmo"}
	return w
}

func (w *c11World) snapshot() []osmomath.Int {
	var out []osmomath.Int
	for _, k := range w.keys {
		out = append(out, c11Get(w.ctx, k))
	}
	return out
}

func (w *c11World) reported() osmomath.Int {
	return c11Get(w.ctx, "sup|uosmo").Add(c11Get(w.ctx, "off|uosmo"))
}

func VH_C11_mint_and_delegate() {
	vConfig("lazy_math", 1)
	sk := c11Staking{}
	switch vChoose("delegate_outcome", 3) {
	case 1:
		sk.delegateFailsEarly = true
	case 2:
		sk.delegateFailsLate = true
	}
	w := c11Setup(sk)
	amt := c11Int("osmo_amount", 1, 1000000000000)
	before := w.snapshot()
	rep := w.reported()
	err := w.k.mintOsmoTokensAndDelegate(w.ctx, amt, w.acc)
	vAssert((err == nil) == (!sk.delegateFailsEarly && !sk.delegateFailsLate), "mint:fails-iff-delegation-fails")
	vAssert(w.reported().Equal(rep), "mint:reported-osmo-supply-unchanged")
	after := w.snapshot()
	if err != nil {
		vReach("reach-failed")
		for i := range before {
			vAssert(after[i].Equal(before[i]), "mint:failed-call-changes-nothing")
		}
		return
	}
	vReach("reach")
	vAssert(after[2].Equal(before[2].Add(amt)), "mint:stake-grows-by-the-amount")
	vAssert(after[3].Equal(before[3].Add(amt)), "mint:bonded-pool-grows-by-the-amount")
	vAssert(after[4].Equal(before[4]) && after[5].Equal(before[5]), "mint:nothing-left-in-intermediary-or-module-account")
	vAssert(after[0].Equal(before[0].Add(amt)) && after[1].Equal(before[1].Sub(amt)), "mint:supply-and-offset-move-oppositely")
}

func VH_C11_undelegate_and_burn() {
	vConfig("lazy_math", 1)
	sk := c11Staking{}
	if vChoose("undelegate_outcome", 2) == 1 {
		sk.undelegateFailsLate = true
	}
	w := c11Setup(sk)
	amt := c11Int("osmo_amount", 1, 1000000000000)
	before := w.snapshot()
	rep := w.reported()
	err := w.k.forceUndelegateAndBurnOsmoTokens(w.ctx, amt, w.acc)
	vAssert(w.reported().Equal(rep), "burn:reported-osmo-supply-unchanged")
	after := w.snapshot()
	if err != nil {
		vReach("reach-failed")
		for i := range before {
			vAssert(after[i].Equal(before[i]), "burn:failed-call-changes-nothing")
		}
		return
	}
	if before[2].IsZero() {
		vReach("reach-no-delegation")
		for i := range before {
			vAssert(after[i].Equal(before[i]), "burn:no-delegation-is-a-no-op")
		}
		return
	}
	vReach("reach")
	vAssert(after[2].Equal(before[2].Sub(amt)), "burn:stake-shrinks-by-the-amount")
	tokens := before[3].Sub(after[3])
	vAssert(!tokens.IsNegative() && tokens.LTE(amt), "burn:bonded-pool-shrinks-by-the-tokens-returned")
	vAssert(after[4].Equal(before[4]) && after[5].Equal(before[5]), "burn:nothing-left-in-intermediary-or-module-account")
	vAssert(after[0].Equal(before[0].Sub(tokens)) && after[1].Equal(before[1].Add(tokens)), "burn:supply-and-offset-move-oppositely-by-the-tokens-burned")
}

// ---------------------------------------------------------------- epoch refresh

// model lockup keeper: only the accumulation query matters for the refresh
type c11Lockup struct{ locked osmomath.Int }

func (l c11Lockup) GetLocksLongerThanDurationDenom(ctx sdk.Context, denom string, duration time.Duration) []lockuptypes.PeriodLock {
	return nil
}
func (l c11Lockup) GetAccountLockedLongerDurationDenom(ctx sdk.Context, addr sdk.AccAddress, denom string, duration time.Duration) []lockuptypes.PeriodLock {
	return nil
}
func (l c11Lockup) GetAccountLockedLongerDurationDenomNotUnlockingOnly(ctx sdk.Context, addr sdk.AccAddress, denom string, duration time.Duration) []lockuptypes.PeriodLock {
	return nil
}
func (l c11Lockup) GetPeriodLocksAccumulation(ctx sdk.Context, query lockuptypes.QueryCondition) osmomath.Int {
	if query.Denom == c11SynthDenom && query.Duration == 14*24*time.Hour {
		return l.locked
	}
	return osmomath.ZeroInt()
}
func (l c11Lockup) GetAccountPeriodLocks(ctx sdk.Context, addr sdk.AccAddress) []lockuptypes.PeriodLock {
	return nil
}
func (l c11Lockup) GetPeriodLocks(ctx sdk.Context) ([]lockuptypes.PeriodLock, error) { return nil, nil }
func (l c11Lockup) GetLockByID(ctx sdk.Context, lockID uint64) (*lockuptypes.PeriodLock, error) {
	return nil, lockuptypes.ErrLockupNotFound
}
func (l c11Lockup) BeginForceUnlock(ctx sdk.Context, lockID uint64, coins sdk.Coins) (uint64, error) {
	return 0, nil
}
func (l c11Lockup) ForceUnlock(ctx sdk.Context, lock lockuptypes.PeriodLock) error { return nil }
func (l c11Lockup) PartialForceUnlock(ctx sdk.Context, lock lockuptypes.PeriodLock, coins sdk.Coins) error {
	return nil
}
func (l c11Lockup) SplitLock(ctx sdk.Context, lock lockuptypes.PeriodLock, coins sdk.Coins, forceUnlock bool) (lockuptypes.PeriodLock, error) {
	return lockuptypes.PeriodLock{}, nil
}
func (l c11Lockup) CreateLock(ctx sdk.Context, owner sdk.AccAddress, coins sdk.Coins, duration time.Duration) (lockuptypes.PeriodLock, error) {
	return lockuptypes.PeriodLock{}, nil
}
func (l c11Lockup) SlashTokensFromLockByID(ctx sdk.Context, lockID uint64, coins sdk.Coins) (*lockuptypes.PeriodLock, error) {
	return nil, nil
}
func (l c11Lockup) SlashTokensFromLockByIDSendUnderlyingAndBurn(ctx sdk.Context, lockID uint64, liquiditySharesInLock, underlyingPositionAssets sdk.Coins, poolAddress sdk.AccAddress) (*lockuptypes.PeriodLock, error) {
	return nil, nil
}
func (l c11Lockup) GetSyntheticLockup(ctx sdk.Context, lockID uint64, suffix string) (*lockuptypes.SyntheticLock, error) {
	return nil, nil
}
func (l c11Lockup) GetAllSyntheticLockupsByAddr(ctx sdk.Context, owner sdk.AccAddress) []lockuptypes.SyntheticLock {
	return nil
}
func (l c11Lockup) GetAllSyntheticLockups(ctx sdk.Context) []lockuptypes.SyntheticLock { return nil }
func (l c11Lockup) CreateSyntheticLockup(ctx sdk.Context, lockID uint64, suffix string, unlockDuration time.Duration, isUnlocking bool) error {
	return nil
}
func (l c11Lockup) DeleteSyntheticLockup(ctx sdk.Context, lockID uint64, suffix string) error {
	return nil
}
func (l c11Lockup) GetSyntheticLockupByUnderlyingLockId(ctx sdk.Context, lockID uint64) (lockuptypes.SyntheticLock, bool, error) {
	return lockuptypes.SyntheticLock{}, false, nil
}

var c11SynthDenom string

func c11ParamsStub(k Keeper, ctx sdk.Context) types.Params {
	return types.Params{MinimumRiskFactor: osmomath.MustNewDecFromStr("0.5")}
}

// after the epoch refresh the intermediary account's stake equals the risk-adjusted OSMO value of the locks delegated
// through it, whatever it was before (nothing, less, more), and the reported supply did not move
func VH_C11_epoch_refresh() {
	vConfig("lazy_math", 1)
	vOverride("(github.com/osmosis-labs/osmosis/v31/x/superfluid/keeper.Keeper).GetParams", c11ParamsStub)
	w := c11Setup(c11Staking{})
	locked := c11Int("locked_shares", 0, 1000000000000)
	c11SynthDenom = stakingSyntheticDenom(w.acc.Denom, w.acc.ValAddr)
	w.k.lk = c11Lockup{locked}
	if vNative() {
		tkey := storetypes.NewTransientStoreKey("transient_params")
		cdc := codec.NewProtoCodec(codectypes.NewInterfaceRegistry())
		w.k.paramSpace = paramtypes.NewSubspace(cdc, codec.NewLegacyAmino(), w.k.storeKey, tkey, types.ModuleName).WithKeyTable(types.ParamKeyTable())
		w.k.SetParams(w.ctx, types.Params{MinimumRiskFactor: osmomath.MustNewDecFromStr("0.5")})
	}
	w.k.SetSuperfluidAsset(w.ctx, types.SuperfluidAsset{Denom: w.acc.Denom, AssetType: types.SuperfluidAssetTypeLPShare})
	w.k.SetOsmoEquivalentMultiplier(w.ctx, 1, w.acc.Denom, osmomath.MustNewDecFromStr("2.5"))
	rep := w.reported()
	before := w.snapshot()
	w.k.RefreshIntermediaryDelegationAmounts(w.ctx, []types.SuperfluidIntermediaryAccount{w.acc})
	vReach("reach")
	after := w.snapshot()
	// expected stake: x = round(2.5 * locked); stake = x - round(x * 0.5)
	x := osmomath.MustNewDecFromStr("2.5").MulInt(locked).RoundInt()
	want := x.Sub(x.ToLegacyDec().Mul(osmomath.MustNewDecFromStr("0.5")).RoundInt())
	vAssert(after[2].Equal(want), "refresh:stake-equals-risk-adjusted-value-of-delegated-locks")
	vAssert(w.reported().Equal(rep), "refresh:reported-osmo-supply-unchanged")
	vAssert(after[4].Equal(before[4]) && after[5].Equal(before[5]), "refresh:nothing-left-in-intermediary-or-module-account")
}
