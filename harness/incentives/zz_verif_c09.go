package keeper

// C09 harnesses: one epoch's payout of a lock-based gauge to three qualifying locks with symbolic amounts.

import (
	"math/big"
	"time"

	storetypes "cosmossdk.io/store/types"
	sdk "github.com/cosmos/cosmos-sdk/types"

	"github.com/osmosis-labs/osmosis/osmomath"
	"github.com/osmosis-labs/osmosis/v31/x/incentives/types"
	lockuptypes "github.com/osmosis-labs/osmosis/v31/x/lockup/types"
)

func c09AddrStub(address string) (sdk.AccAddress, error) { return sdk.AccAddress(address), nil }

func c09Int(x *big.Int) osmomath.Int { return osmomath.NewIntFromBigInt(new(big.Int).Set(x)) }

func c09Pos(name string, bits uint) *big.Int {
	return vNondetBigRange(name, big.NewInt(1), new(big.Int).Lsh(big.NewInt(1), bits))
}

const c09Reward = "uosmo"

func c09Distribute(perpetual bool) {
	if vNative() {
		sdk.GetConfig().SetBech32PrefixForAccount("osmo", "osmopub")
	}
	vOverride("github.com/cosmos/cosmos-sdk/types.AccAddressFromBech32", c09AddrStub)
	key := storetypes.NewKVStoreKey(types.StoreKey)
	ms := vNewMS(types.StoreKey)
	ctx := vNewCtx(ms, vTimeFromNanos(int64(1700000000)*1000000000), 10)
	k := Keeper{storeKey: key}

	total := c09Pos("gauge_coins", 100)
	distributed := vNondetBigRange("already_distributed", new(big.Int), new(big.Int).Lsh(big.NewInt(1), 100))
	vAssume(distributed.Cmp(total) <= 0)
	remaining := new(big.Int).Sub(total, distributed)
	numEpochs := uint64(vNondetRange("num_epochs", 1, 1<<20))
	filled := uint64(vNondetRange("filled_epochs", 0, 1<<20))
	vAssume(filled < numEpochs)
	if perpetual {
		numEpochs, filled = 1, uint64(vNondetRange("filled_epochs_perpetual", 0, 1<<20))
	}
	// same conversions as the implementation (uint64 difference, then int64), so that both sides build the same term
	remainEpochs := big.NewInt(int64(numEpochs - filled))
	if perpetual {
		remainEpochs = big.NewInt(1)
	}
	minValue := vNondetBigRange("min_value", new(big.Int), new(big.Int).Lsh(big.NewInt(1), 64))

	gauge := types.Gauge{
		Id: 7, IsPerpetual: perpetual,
		DistributeTo:      lockuptypes.QueryCondition{LockQueryType: lockuptypes.ByDuration, Denom: "lptoken", Duration: time.Hour},
		Coins:             sdk.Coins{sdk.NewCoin(c09Reward, c09Int(total))},
		StartTime:         vTimeFromNanos(int64(1600000000) * 1000000000),
		NumEpochsPaidOver: numEpochs, FilledEpochs: filled,
	}
	if distributed.Sign() > 0 {
		gauge.DistributedCoins = sdk.Coins{sdk.NewCoin(c09Reward, c09Int(distributed))}
	}
	owners := []string{vAddrTable[0], vAddrTable[1], vAddrTable[2]}
	amts := []*big.Int{c09Pos("lock_0", 90), c09Pos("lock_1", 90), c09Pos("lock_2", 90)}
	// the second lock redirects its rewards; the third lock belongs to the first owner as well
	locks := []*lockuptypes.PeriodLock{
		{ID: 1, Owner: owners[0], Duration: 2 * time.Hour, Coins: sdk.Coins{sdk.NewCoin("lptoken", c09Int(amts[0]))}},
		{ID: 2, Owner: owners[1], RewardReceiverAddress: vAddrTable[3], Duration: 2 * time.Hour, Coins: sdk.Coins{sdk.NewCoin("lptoken", c09Int(amts[1]))}},
		{ID: 3, Owner: owners[0], Duration: 3 * time.Hour, Coins: sdk.Coins{sdk.NewCoin("lptoken", c09Int(amts[2]))}},
	}
	info := newDistributionInfo()
	cache := DistributionValueCache{minDistrValue: sdk.NewCoin(c09Reward, c09Int(minValue)), denomToMinValueMap: map[string]osmomath.Int{}}
	vReach("reach")
	paid, err := k.distributeInternal(ctx, gauge, locks, &info, &cache)
	vAssert(err == nil, "no-error")
	if err != nil {
		return
	}
	stored, gerr := k.GetGaugeByID(ctx, 7)
	// spam guard: a single-denom remainder of at most 100 units is skipped entirely (but the epoch is counted)
	if remaining.Sign() == 0 || remaining.Cmp(big.NewInt(100)) <= 0 {
		vAssert(paid.AmountOf(c09Reward).IsZero(), "dust-gauge:nothing-paid")
		vAssert(gerr == nil && stored.FilledEpochs == filled+1, "dust-gauge:epoch-counted")
		return
	}
	sum := new(big.Int).Add(new(big.Int).Add(amts[0], amts[1]), amts[2])
	denom := new(big.Int).Mul(sum, remainEpochs)
	want := make([]*big.Int, 3)
	totalWant := new(big.Int)
	for i := range want {
		want[i] = new(big.Int).Quo(new(big.Int).Mul(remaining, amts[i]), denom)
		if want[i].Cmp(minValue) < 0 {
			want[i] = new(big.Int)
		}
		totalWant.Add(totalWant, want[i])
	}
	vAssert(paid.AmountOf(c09Reward).BigIntMut().Cmp(totalWant) == 0, "total-is-sum-of-floored-pro-rata-shares")
	// never more than the per-epoch amount, hence never more than what the gauge still holds
	vAssert(new(big.Int).Mul(totalWant, remainEpochs).Cmp(remaining) <= 0, "per-epoch-total-times-remaining-epochs-at-most-remaining")
	// receivers: owner 0 collects locks 1 and 3, lock 2 pays its designated receiver
	got0, got1 := new(big.Int), new(big.Int)
	for id, addr := range info.idToBech32Addr {
		amt := info.idToDistrCoins[id].AmountOf(c09Reward).BigIntMut()
		switch addr {
		case owners[0]:
			got0 = amt
		case vAddrTable[3]:
			got1 = amt
		default:
			vAssert(false, "no-other-receiver")
		}
	}
	vAssert(got0.Cmp(new(big.Int).Add(want[0], want[2])) == 0, "owner-receives-the-shares-of-its-locks")
	vAssert(got1.Cmp(want[1]) == 0, "designated-receiver-receives-the-redirected-share")
	// gauge record: one more filled epoch, distributed grows by what was paid and never exceeds the gauge's coins
	vAssert(gerr == nil && stored.FilledEpochs == filled+1, "epoch-counted")
	if gerr == nil {
		d := stored.DistributedCoins.AmountOf(c09Reward).BigIntMut()
		vAssert(d.Cmp(new(big.Int).Add(distributed, totalWant)) == 0, "distributed-grows-by-the-payout")
		vAssert(d.Cmp(total) <= 0, "never-distributes-more-than-deposited")
		vAssert(stored.Coins.AmountOf(c09Reward).BigIntMut().Cmp(total) == 0, "gauge-coins-unchanged")
	}
}

func VH_C09_distribute_non_perpetual() { c09Distribute(false) }
func VH_C09_distribute_perpetual()     { c09Distribute(true) }

// lifecycle predicates: a gauge is upcoming strictly before its start time, active from its start time until it has
// paid all its epochs (forever if perpetual), finished afterwards
func VH_C09_lifecycle() {
	start := vNondetRange("start_ns", 1, 1<<61)
	now := vNondetRange("now_ns", 1, 1<<61)
	num := uint64(vNondetRange("num_epochs", 1, 1<<20))
	filled := uint64(vNondetRange("filled_epochs", 0, 1<<21))
	perpetual := vNondetBool("perpetual")
	g := types.Gauge{Id: 1, IsPerpetual: perpetual, StartTime: vTimeFromNanos(start), NumEpochsPaidOver: num, FilledEpochs: filled}
	t := vTimeFromNanos(now)
	vReach("reach")
	up, act, fin := g.IsUpcomingGauge(t), g.IsActiveGauge(t), g.IsFinishedGauge(t)
	vAssert(up == (now < start), "upcoming-iff-before-start")
	vAssert(act == (now >= start && (perpetual || filled < num)), "active-iff-started-and-epochs-left")
	vAssert(fin == (now >= start && !perpetual && filled >= num), "finished-iff-all-epochs-paid")
	vAssert((up && !act && !fin) || (!up && act && !fin) || (!up && !act && fin), "exactly-one-state")
}
