package keeper

// C09 harnesses at epoch level: the real AfterEpochEnd (activation of upcoming gauges, Distribute with its per-denom
// lock cache, distributeInternal, doDistributionSends, checkFinishDistribution) on a model store with model bank and
// lockup keepers.

import (
	"context"
	"time"

	storetypes "cosmossdk.io/store/types"
	"github.com/cosmos/cosmos-sdk/codec"
	codectypes "github.com/cosmos/cosmos-sdk/codec/types"
	sdk "github.com/cosmos/cosmos-sdk/types"
	paramtypes "github.com/cosmos/cosmos-sdk/x/params/types"

	"github.com/osmosis-labs/osmosis/osmomath"
	"github.com/osmosis-labs/osmosis/v31/x/incentives/types"
	lockuptypes "github.com/osmosis-labs/osmosis/v31/x/lockup/types"
)

type c09ELedger struct {
	addr []string
	amt  []osmomath.Int
}

func (l *c09ELedger) get(a string) osmomath.Int {
	for i := range l.addr {
		if l.addr[i] == a {
			return l.amt[i]
		}
	}
	return osmomath.ZeroInt()
}

type c09EBank struct{ l *c09ELedger }

func (b c09EBank) GetBalance(ctx context.Context, addr sdk.AccAddress, denom string) sdk.Coin {
	return sdk.NewCoin(denom, osmomath.ZeroInt())
}
func (b c09EBank) HasSupply(ctx context.Context, denom string) bool { return true }
func (b c09EBank) SendCoinsFromModuleToManyAccounts(ctx context.Context, senderModule string, recipientAddrs []sdk.AccAddress, amts []sdk.Coins) error {
	for i, a := range recipientAddrs {
		found := false
		for j := range b.l.addr {
			if b.l.addr[j] == string(a) {
				b.l.amt[j] = b.l.amt[j].Add(amts[i].AmountOf(c09Reward))
				found = true
			}
		}
		if !found {
			b.l.addr = append(b.l.addr, string(a))
			b.l.amt = append(b.l.amt, amts[i].AmountOf(c09Reward))
		}
	}
	return nil
}
func (b c09EBank) SendCoinsFromAccountToModule(ctx context.Context, senderAddr sdk.AccAddress, recipientModule string, amt sdk.Coins) error {
	return nil
}

type c09ELockup struct{ locks []lockuptypes.PeriodLock }

func (l c09ELockup) GetLocksLongerThanDurationDenom(ctx sdk.Context, denom string, duration time.Duration) []lockuptypes.PeriodLock {
	var out []lockuptypes.PeriodLock
	for _, lk := range l.locks {
		if lk.Duration >= duration && lk.Coins.AmountOf(denom).IsPositive() {
			out = append(out, lk)
		}
	}
	return out
}
func (l c09ELockup) GetPeriodLocksAccumulation(ctx sdk.Context, query lockuptypes.QueryCondition) osmomath.Int {
	sum := osmomath.ZeroInt()
	for _, lk := range l.locks {
		if lk.Duration >= query.Duration {
			sum = sum.Add(lk.Coins.AmountOf(query.Denom))
		}
	}
	return sum
}
func (l c09ELockup) GetAccountPeriodLocks(ctx sdk.Context, addr sdk.AccAddress) []lockuptypes.PeriodLock {
	return nil
}
func (l c09ELockup) GetLockByID(ctx sdk.Context, lockID uint64) (*lockuptypes.PeriodLock, error) {
	for i := range l.locks {
		if l.locks[i].ID == lockID {
			return &l.locks[i], nil
		}
	}
	return nil, lockuptypes.ErrLockupNotFound
}

func c09EParams() types.Params {
	p := types.DefaultParams()
	p.MinValueForDistribution = sdk.NewCoin(c09Reward, osmomath.NewInt(1))
	return p
}

func c09EParamsStub(k Keeper, ctx sdk.Context) types.Params { return c09EParams() }

type c09EWorld struct {
	k   *Keeper
	ctx sdk.Context
	led *c09ELedger
}

var c09ET0 = int64(1700000000) * 1000000000

func c09ESetup(locks []lockuptypes.PeriodLock) *c09EWorld {
	if vNative() {
		sdk.GetConfig().SetBech32PrefixForAccount("osmo", "osmopub")
	}
	vOverride("github.com/cosmos/cosmos-sdk/types.AccAddressFromBech32", c09AddrStub)
	vOverride("(github.com/osmosis-labs/osmosis/v31/x/incentives/keeper.Keeper).GetParams", c09EParamsStub)
	w := &c09EWorld{led: &c09ELedger{}}
	key := storetypes.NewKVStoreKey(types.StoreKey)
	ms := vNewMS(types.StoreKey)
	w.ctx = vNewCtx(ms, vTimeFromNanos(c09ET0), 10)
	w.k = &Keeper{storeKey: key, bk: c09EBank{w.led}, lk: c09ELockup{locks}, hooks: types.NewMultiIncentiveHooks()}
	if vNative() {
		tkey := storetypes.NewTransientStoreKey("transient_params")
		cdc := codec.NewProtoCodec(codectypes.NewInterfaceRegistry())
		w.k.paramSpace = paramtypes.NewSubspace(cdc, codec.NewLegacyAmino(), key, tkey, types.ModuleName).WithKeyTable(types.ParamKeyTable())
		w.k.SetParams(w.ctx, c09EParams())
	}
	return w
}

func (w *c09EWorld) activeIDs() (m uint64) {
	for _, g := range w.k.GetActiveGauges(w.ctx) {
		m |= 1 << g.Id
	}
	return
}

func (w *c09EWorld) upcomingIDs() (m uint64) {
	for _, g := range w.k.GetUpcomingGauges(w.ctx) {
		m |= 1 << g.Id
	}
	return
}

// a gauge starts paying at the first epoch end whose block time is not before its start time - including exactly at it
func VH_C09_epoch_activation() {
	vConfig("lazy_math", 1)
	amtA := c09Int(c09Pos("lock_a", 60))
	locks := []lockuptypes.PeriodLock{
		{ID: 1, Owner: vAddrTable[0], Duration: 2 * time.Hour, Coins: sdk.Coins{sdk.NewCoin("lptoken", amtA)}},
	}
	w := c09ESetup(locks)
	start := c09ET0 + int64(time.Hour)
	coins := c09Int(vNondetBigRange("gauge_coins", osmomath.NewInt(1000).BigInt(), osmomath.NewInt(1000000000000).BigInt()))
	gauge := types.Gauge{
		Id: 1, IsPerpetual: false,
		DistributeTo:      lockuptypes.QueryCondition{LockQueryType: lockuptypes.ByDuration, Denom: "lptoken", Duration: time.Hour},
		Coins:             sdk.Coins{sdk.NewCoin(c09Reward, coins)},
		StartTime:         vTimeFromNanos(start),
		NumEpochsPaidOver: 2,
	}
	if err := w.k.SetGaugeWithRefKey(w.ctx, &gauge); err != nil {
		vAssume(false)
	}
	vAssert(w.upcomingIDs() == 2 && w.activeIDs() == 0, "activation:gauge-starts-upcoming")
	t := vNondetRange("epoch_end_ns", c09ET0, c09ET0+int64(3*time.Hour))
	w.ctx = w.ctx.WithBlockTime(vTimeFromNanos(t))
	err := w.k.AfterEpochEnd(w.ctx, c09EParams().DistrEpochIdentifier, 1)
	vAssert(err == nil, "activation:epoch-end-succeeds")
	if err != nil {
		return
	}
	stored, gerr := w.k.GetGaugeByID(w.ctx, 1)
	vAssert(gerr == nil, "activation:gauge-readable")
	if gerr != nil {
		return
	}
	if t >= start {
		vReach("reach-activated")
		vAssert(w.activeIDs() == 2 && w.upcomingIDs() == 0, "activation:active-from-its-start-time-on")
		vAssert(stored.FilledEpochs == 1, "activation:first-epoch-paid-at-activation")
		// one of two epochs: half of the coins (truncated) to the only lock's owner
		vAssert(w.led.get(c09EOwnerKey(0)).Equal(coins.QuoRaw(2)), "activation:owner-receives-the-epoch-share")
	} else {
		vReach("reach-not-yet")
		vAssert(w.activeIDs() == 0 && w.upcomingIDs() == 2, "activation:upcoming-before-its-start-time")
		vAssert(stored.FilledEpochs == 0 && len(w.led.addr) == 0, "activation:nothing-paid-before-start")
	}
	// another identifier's epoch end does nothing
	before := stored.FilledEpochs
	err2 := w.k.AfterEpochEnd(w.ctx, "some-other-epoch", 2)
	again, _ := w.k.GetGaugeByID(w.ctx, 1)
	vAssert(err2 == nil && again.FilledEpochs == before, "activation:other-epoch-identifiers-ignored")
}

func c09EOwnerKey(i int) string {
	a, err := sdk.AccAddressFromBech32(vAddrTable[i])
	if err != nil {
		return ""
	}
	return string(a)
}

// two active perpetual gauges on one lock denomination with different minimum durations, the longer one first: each
// pays exactly the locks that are long enough for it
func VH_C09_epoch_two_gauges_one_denom() {
	vConfig("lazy_math", 1)
	a := c09Int(c09Pos("lock_a", 60))
	b := c09Int(c09Pos("lock_b", 60))
	locks := []lockuptypes.PeriodLock{
		{ID: 1, Owner: vAddrTable[0], Duration: 90 * time.Minute, Coins: sdk.Coins{sdk.NewCoin("lptoken", a)}},
		{ID: 2, Owner: vAddrTable[1], Duration: 3 * time.Hour, Coins: sdk.Coins{sdk.NewCoin("lptoken", b)}},
	}
	w := c09ESetup(locks)
	c1 := c09Int(vNondetBigRange("gauge1_coins", osmomath.NewInt(1000).BigInt(), osmomath.NewInt(1000000000000).BigInt()))
	c2 := c09Int(vNondetBigRange("gauge2_coins", osmomath.NewInt(1000).BigInt(), osmomath.NewInt(1000000000000).BigInt()))
	durs := []time.Duration{2 * time.Hour, time.Hour}
	cs := []osmomath.Int{c1, c2}
	for i := 0; i < 2; i++ {
		g := types.Gauge{
			Id: uint64(i + 1), IsPerpetual: true,
			DistributeTo:      lockuptypes.QueryCondition{LockQueryType: lockuptypes.ByDuration, Denom: "lptoken", Duration: durs[i]},
			Coins:             sdk.Coins{sdk.NewCoin(c09Reward, cs[i])},
			StartTime:         vTimeFromNanos(c09ET0 - int64(time.Hour)),
			NumEpochsPaidOver: 1,
		}
		if err := w.k.SetGaugeWithRefKey(w.ctx, &g); err != nil {
			vAssume(false)
		}
	}
	vAssert(w.activeIDs() == 6, "two-gauges:both-active")
	err := w.k.AfterEpochEnd(w.ctx, c09EParams().DistrEpochIdentifier, 1)
	vAssert(err == nil, "two-gauges:epoch-end-succeeds")
	if err != nil {
		return
	}
	vReach("reach")
	// gauge 1 (>= 2h): lock 2 only; gauge 2 (>= 1h): both locks pro rata
	want0 := c2.Mul(a).Quo(a.Add(b))
	want1 := c1.Add(c2.Mul(b).Quo(a.Add(b)))
	vAssert(w.led.get(c09EOwnerKey(0)).Equal(want0), "two-gauges:shorter-lock-paid-by-the-gauge-it-qualifies-for")
	vAssert(w.led.get(c09EOwnerKey(1)).Equal(want1), "two-gauges:longer-lock-paid-by-both-gauges")
	g1, _ := w.k.GetGaugeByID(w.ctx, 1)
	g2, _ := w.k.GetGaugeByID(w.ctx, 2)
	vAssert(g1.FilledEpochs == 1 && g2.FilledEpochs == 1, "two-gauges:both-epochs-counted")
	vAssert(g1.DistributedCoins.AmountOf(c09Reward).LTE(c1) && g2.DistributedCoins.AmountOf(c09Reward).LTE(c2), "two-gauges:never-more-than-deposited")
}
