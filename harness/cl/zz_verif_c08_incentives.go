package concentrated_liquidity

// C08 harness over time: an incentive record emitting at a SYMBOLIC rate, a position in range for the whole time, one
// that never is, block-time advances, a real tick-crossing swap in between, then the claimable incentives. What can be
// claimed never exceeds what was emitted over the elapsed time (nor the record's remaining amount), goes only to the
// liquidity that was in range, and an incentive whose minimum uptime the position has not reached is forfeited.

import (
	"time"

	sdk "github.com/cosmos/cosmos-sdk/types"

	"github.com/osmosis-labs/osmosis/osmomath"
	"github.com/osmosis-labs/osmosis/v31/x/concentrated-liquidity/types"
)

func VH_C08_incentives_over_time() {
	vConfig("lazy_math", 1)
	w := c08Setup()
	t0 := w.now
	// concrete liquidity (the emission per unit of liquidity divides by it), symbolic rate and budget
	if !w.open(1, -200, 200, osmomath.NewDec(1000000)) {
		vAssume(false)
	}
	if !w.open(2, 100, 200, osmomath.NewDec(500000)) { // above the price for the whole history
		vAssume(false)
	}
	if !w.open(3, -200, -100, osmomath.NewDec(250000)) { // entered only at the very end of the swap
		vAssume(false)
	}
	rate := osmomath.NewDecFromBigIntWithPrec(vNondetBigRange("emission_rate_e18", osmomath.NewInt(1).BigInt(), osmomath.NewIntWithDecimal(1, 24).BigInt()), 18)
	budget := osmomath.NewDecFromBigIntWithPrec(vNondetBigRange("budget_e18", osmomath.NewIntWithDecimal(1, 18).BigInt(), osmomath.NewIntWithDecimal(1, 36).BigInt()), 18)
	recs := []types.IncentiveRecord{
		{PoolId: 1, IncentiveId: 1, MinUptime: time.Nanosecond, IncentiveRecordBody: types.IncentiveRecordBody{RemainingCoin: sdk.NewDecCoinFromDec("uosmo", budget), EmissionRate: rate, StartTime: t0}},
		{PoolId: 1, IncentiveId: 2, MinUptime: 24 * time.Hour, IncentiveRecordBody: types.IncentiveRecordBody{RemainingCoin: sdk.NewDecCoinFromDec("uion", budget), EmissionRate: rate, StartTime: t0}},
	}
	for _, r := range recs {
		if err := w.k.setIncentiveRecord(w.ctx, r); err != nil {
			vAssume(false)
		}
	}
	// one hour later a swap crosses tick -100 (its last step), which syncs the uptime accumulators
	w.ctx = w.ctx.WithBlockTime(t0.Add(time.Hour))
	ok, _, _ := w.swapTo(-100)
	if !ok {
		vReach("reach-swap-refused")
		return
	}
	pool, _ := w.k.getPoolById(w.ctx, 1)
	vAssert(!pool.GetLastLiquidityUpdate().Before(t0.Add(time.Hour)), "time:last-liquidity-update-never-moves-back")
	// another hour later everybody looks at what they can claim
	w.ctx = w.ctx.WithBlockTime(t0.Add(2 * time.Hour))
	if err := w.k.UpdatePoolUptimeAccumulatorsToNow(w.ctx, 1); err != nil {
		vAssert(false, "time:accumulator-sync-succeeds")
		return
	}
	vReach("reach")
	emitted := rate.MulInt64(7200) // the most the first record can have emitted in two hours
	total := osmomath.ZeroInt()
	for _, id := range []uint64{1, 2, 3} {
		collected, forfeited, err := w.k.GetClaimableIncentives(w.ctx, id)
		vAssert(err == nil, "incentives:claimable-query-succeeds")
		if err != nil {
			return
		}
		// nobody has been in range for a day: the one-day incentive is never collectable
		vAssert(collected.AmountOf("uion").IsZero(), "incentives:unmet-uptime-is-not-paid")
		if id == 2 {
			vAssert(collected.IsZero() && forfeited.IsZero(), "incentives:never-in-range-earns-nothing")
		}
		total = total.Add(collected.AmountOf("uosmo")).Add(forfeited.AmountOf("uosmo"))
	}
	vAssert(total.ToLegacyDec().LTE(emitted), "incentives:claimable-at-most-rate-times-elapsed-time")
	vAssert(total.ToLegacyDec().LTE(budget), "incentives:claimable-at-most-the-budget")
	// and the liquidity that was in range the whole time does earn (when at least one whole unit was emitted)
	c1, _, _ := w.k.GetClaimableIncentives(w.ctx, 1)
	if rate.MulInt64(3600).GTE(osmomath.NewDec(4)) && budget.GTE(emitted) {
		vAssert(c1.AmountOf("uosmo").IsPositive(), "incentives:in-range-liquidity-earns")
	}
}
