package concentrated_liquidity

// C07 harnesses: the real CL keeper (UpdatePosition / WithdrawPosition with initOrUpdateTick, initOrUpdatePosition,
// uptime and spread-reward accumulators, pool liquidity update, tick removal) is executed on a model store for short
// LP histories over a prepared pool: two positions with arbitrary ranges drawn from a five-tick grid around the current
// tick and symbolic liquidity, then a partial or full withdrawal. After every operation the stored ticks, the pool's
// active liquidity and the position records are compared with sums over the harness's own list of positions.

import (
	"context"
	"time"

	storetypes "cosmossdk.io/store/types"
	sdk "github.com/cosmos/cosmos-sdk/types"
	banktypes "github.com/cosmos/cosmos-sdk/x/bank/types"

	"github.com/osmosis-labs/osmosis/osmomath"
	"github.com/osmosis-labs/osmosis/osmoutils"
	"github.com/osmosis-labs/osmosis/v31/x/concentrated-liquidity/model"
	"github.com/osmosis-labs/osmosis/v31/x/concentrated-liquidity/types"
)

type c07Bank struct{ sent *[]sdk.Coins }

func (b c07Bank) GetBalance(ctx context.Context, addr sdk.AccAddress, denom string) sdk.Coin {
	return sdk.NewCoin(denom, osmomath.ZeroInt())
}
func (b c07Bank) GetDenomMetaData(ctx context.Context, denom string) (banktypes.Metadata, bool) {
	return banktypes.Metadata{}, false
}
func (b c07Bank) SendCoins(ctx context.Context, from, to sdk.AccAddress, amt sdk.Coins) error {
	*b.sent = append(*b.sent, amt)
	return nil
}
func (b c07Bank) HasBalance(ctx context.Context, addr sdk.AccAddress, amt sdk.Coin) bool { return true }
func (b c07Bank) MintCoins(ctx context.Context, name string, amt sdk.Coins) error        { return nil }
func (b c07Bank) SendCoinsFromModuleToAccount(ctx context.Context, senderModule string, recipientAddr sdk.AccAddress, amt sdk.Coins) error {
	return nil
}
func (b c07Bank) BurnCoins(ctx context.Context, name string, amt sdk.Coins) error { return nil }

type c07Pos struct {
	id           uint64
	lower, upper int64
	liq          osmomath.Dec
	live         bool
}

type c07World struct {
	k     *Keeper
	ctx   sdk.Context
	ms    *vMS
	owner sdk.AccAddress
	pos   []c07Pos
	cur   int64
	now   time.Time
}

var c07Grid = []int64{-200, -100, 0, 100, 200}

func c07AddrStub(address string) (sdk.AccAddress, error) { return sdk.AccAddress(address), nil }
func c07AddrString(aa sdk.AccAddress) string             { return string(aa) }

func c07Setup(curIdx int) *c07World {
	if vNative() {
		sdk.GetConfig().SetBech32PrefixForAccount("osmo", "osmopub")
	}
	vOverride("github.com/cosmos/cosmos-sdk/types.AccAddressFromBech32", c07AddrStub)
	vOverride("(github.com/cosmos/cosmos-sdk/types.AccAddress).String", c07AddrString)
	vOverride("sort.Slice", vSortSlice)
	w := &c07World{}
	key := storetypes.NewKVStoreKey(types.StoreKey)
	w.ms = vNewMS(types.StoreKey)
	w.now = vTimeFromNanos(int64(1700000000) * 1000000000)
	w.ctx = vNewCtx(w.ms, w.now, 10)
	sent := []sdk.Coins{}
	w.k = &Keeper{storeKey: key, bankKeeper: c07Bank{&sent}, listeners: types.NewConcentratedLiquidityListeners()}
	a, err := sdk.AccAddressFromBech32(vAddrTable[0])
	if err != nil {
		vAssume(false)
	}
	w.owner = a
	// current tick inside the grid; the sqrt price is the tick's own (bucket lower bound) or strictly inside the bucket
	w.cur = []int64{0, -100, 50}[curIdx]
	sqrtP := map[int64]string{0: "1", -100: "0.999950003749687527", 50: "1.000024999687507812"}[w.cur]
	pool := model.Pool{
		Address: vAddrTable[1], IncentivesAddress: vAddrTable[2], SpreadRewardsAddress: vAddrTable[3], Id: 1,
		CurrentSqrtPrice: osmomath.MustNewBigDecFromStr(sqrtP), CurrentTick: w.cur, CurrentTickLiquidity: osmomath.ZeroDec(),
		Token0: "eth", Token1: "usdc", TickSpacing: 100, ExponentAtPriceOne: types.ExponentAtPriceOne,
		SpreadFactor: osmomath.MustNewDecFromStr("0.003"), LastLiquidityUpdate: w.now,
	}
	// genesis state: accumulator scaling migration thresholds (pool 1 is on the new-scaling side)
	w.k.SetIncentivePoolIDMigrationThreshold(w.ctx, 0)
	w.k.SetSpreadFactorPoolIDMigrationThreshold(w.ctx, 0)
	if err := w.k.createSpreadRewardAccumulator(w.ctx, 1); err != nil {
		vAssume(false)
	}
	if err := w.k.createUptimeAccumulators(w.ctx, 1); err != nil {
		vAssume(false)
	}
	if err := w.k.setPool(w.ctx, &pool); err != nil {
		vAssume(false)
	}
	return w
}

func c07Liq(name string) osmomath.Dec {
	// liquidity with 18 decimals: raw in [1e18, 1e30] (at least one unit of liquidity)
	raw := vNondetBigRange(name, osmomath.NewInt(1000000000000000000).BigInt(), osmomath.NewIntWithDecimal(1, 30).BigInt())
	return osmomath.NewDecFromBigIntWithPrec(raw, 18)
}

func (w *c07World) open(id uint64, lower, upper int64, liq osmomath.Dec) bool {
	_, err := w.k.UpdatePosition(w.ctx, 1, w.owner, lower, upper, liq, w.now, id)
	if err != nil {
		return false
	}
	w.pos = append(w.pos, c07Pos{id: id, lower: lower, upper: upper, liq: liq, live: true})
	return true
}

// check compares stored ticks, pool liquidity and position records with the sums over w.pos
func (w *c07World) check(tag string, fullyWithdrawnTicksRemoved bool) {
	store := w.ctx.KVStore(w.k.storeKey)
	for _, t := range c07Grid {
		gross, net := osmomath.ZeroDec(), osmomath.ZeroDec()
		used := false
		for _, p := range w.pos {
			if !p.live {
				continue
			}
			if p.lower == t {
				gross = gross.Add(p.liq)
				net = net.Add(p.liq)
				used = true
			}
			if p.upper == t {
				gross = gross.Add(p.liq)
				net = net.Sub(p.liq)
				used = true
			}
		}
		ti := model.TickInfo{}
		found, err := osmoutils.Get(store, types.KeyTick(1, t), &ti)
		vAssert(err == nil, tag+":tick-readable")
		if used {
			vAssert(found, tag+":boundary-tick-is-stored")
		}
		if found {
			vAssert(ti.LiquidityGross.Equal(gross), tag+":tick-gross-equals-sum-over-positions")
			vAssert(ti.LiquidityNet.Equal(net), tag+":tick-net-equals-sum-over-positions")
		}
		if !used && fullyWithdrawnTicksRemoved {
			vAssert(!found, tag+":no-tick-stored-without-a-position")
		}
	}
	pool, err := w.k.getPoolById(w.ctx, 1)
	vAssert(err == nil, tag+":pool-readable")
	if err != nil {
		return
	}
	active := osmomath.ZeroDec()
	for _, p := range w.pos {
		if p.live && p.lower <= w.cur && w.cur < p.upper {
			active = active.Add(p.liq)
		}
	}
	vAssert(pool.GetLiquidity().Equal(active), tag+":active-liquidity-equals-in-range-positions")
	for _, p := range w.pos {
		got, err := w.k.GetPosition(w.ctx, p.id)
		if !p.live {
			vAssert(err != nil, tag+":withdrawn-position-deleted")
			continue
		}
		vAssert(err == nil, tag+":position-readable")
		if err == nil {
			vAssert(got.PositionId == p.id && got.PoolId == 1 && got.Address == vAddrTable[0] && got.LowerTick == p.lower && got.UpperTick == p.upper && got.Liquidity.Equal(p.liq), tag+":position-record-matches")
		}
	}
}

// all 10 ordered pairs of the grid (indexed by vChoose in the harness body itself, so that the split is not merged)
var c07Pairs = [][2]int64{{-200, -100}, {-100, 0}, {-100, 100}, {0, 100}, {100, 200}, {-200, 0}, {-200, 100}, {-200, 200}, {-100, 200}, {0, 200}}

// quick tier: the first five ranges (below, touching, containing, starting at and above the current tick for each of
// the three current ticks); thorough tier: all ten for the first range, five for the second range of
// withdrawal and swap histories
func c07NPairs2() int {
	if vTier() == 1 {
		return 5
	}
	return 3
}

func c07NPairs() int {
	if vTier() == 1 {
		return 10
	}
	return 5
}

func VH_C07_two_positions_at_tick_boundary()  { c07_two_positions(0) }
func VH_C07_two_positions_at_lower_boundary() { c07_two_positions(1) }
func VH_C07_two_positions_inside_bucket()     { c07_two_positions(2) }

func c07_two_positions(cur int) {
	vConfig("lazy_math", 1)
	w := c07Setup(cur)
	r1 := c07Pairs[vChoose("range1", c07NPairs())]
	l1, u1 := r1[0], r1[1]
	if !w.open(1, l1, u1, c07Liq("liq1")) {
		vAssume(false)
	}
	w.check("first", false)
	r2 := c07Pairs[vChoose("range2", c07NPairs())]
	l2, u2 := r2[0], r2[1]
	if !w.open(2, l2, u2, c07Liq("liq2")) {
		vAssume(false)
	}
	vReach("reach")
	w.check("second", false)
}

func VH_C07_add_and_partial_withdraw_at_tick_boundary()  { c07_add_and_partial_withdraw(0) }
func VH_C07_add_and_partial_withdraw_at_lower_boundary() { c07_add_and_partial_withdraw(1) }
func VH_C07_add_and_partial_withdraw_inside_bucket()     { c07_add_and_partial_withdraw(2) }

func c07_add_and_partial_withdraw(cur int) {
	vConfig("lazy_math", 1)
	w := c07Setup(cur)
	r1 := c07Pairs[vChoose("range1", c07NPairs())]
	l1, u1 := r1[0], r1[1]
	if !w.open(1, l1, u1, c07Liq("liq1")) {
		vAssume(false)
	}
	r2 := c07Pairs[vChoose("range2", c07NPairs2())]
	l2, u2 := r2[0], r2[1]
	if !w.open(2, l2, u2, c07Liq("liq2")) {
		vAssume(false)
	}
	// partial withdrawal of position 1 through the public entry point
	d := c07Liq("withdraw")
	vAssume(d.LT(w.pos[0].liq))
	_, _, err := w.k.WithdrawPosition(w.ctx, w.owner, 1, d)
	vAssert(err == nil, "partial:withdraw-succeeds")
	if err != nil {
		return
	}
	w.pos[0].liq = w.pos[0].liq.Sub(d)
	vReach("reach")
	w.check("partial", false)
	// more than the position holds is refused and changes nothing
	_, _, err2 := w.k.WithdrawPosition(w.ctx, w.owner, 1, w.pos[0].liq.Add(osmomath.OneDec()))
	vAssert(err2 != nil, "partial:over-withdraw-refused")
	w.check("partial-refused", false)
}

func VH_C07_full_withdraw_at_tick_boundary()  { c07_full_withdraw(0) }
func VH_C07_full_withdraw_at_lower_boundary() { c07_full_withdraw(1) }
func VH_C07_full_withdraw_inside_bucket()     { c07_full_withdraw(2) }

func c07_full_withdraw(cur int) {
	vConfig("lazy_math", 1)
	w := c07Setup(cur)
	r1 := c07Pairs[vChoose("range1", c07NPairs())]
	l1, u1 := r1[0], r1[1]
	if !w.open(1, l1, u1, c07Liq("liq1")) {
		vAssume(false)
	}
	r2 := c07Pairs[vChoose("range2", c07NPairs2())]
	l2, u2 := r2[0], r2[1]
	if !w.open(2, l2, u2, c07Liq("liq2")) {
		vAssume(false)
	}
	_, _, err := w.k.WithdrawPosition(w.ctx, w.owner, 1, w.pos[0].liq)
	vAssert(err == nil, "full:withdraw-succeeds")
	if err != nil {
		return
	}
	w.pos[0].live = false
	vReach("reach")
	w.check("full", true)
	// the last position leaves: the pool has no price and no ticks
	_, _, err2 := w.k.WithdrawPosition(w.ctx, w.owner, 2, w.pos[1].liq)
	vAssert(err2 == nil, "last:withdraw-succeeds")
	if err2 != nil {
		return
	}
	w.pos[1].live = false
	pool, _ := w.k.getPoolById(w.ctx, 1)
	vAssert(pool.GetCurrentSqrtPrice().IsZero(), "last:pool-without-positions-has-no-price")
	vAssert(pool.GetCurrentTick() == 0, "last:pool-without-positions-has-tick-zero")
	vAssert(pool.GetLiquidity().IsZero(), "last:pool-without-positions-has-no-liquidity")
	w.cur = 0
	w.check("last", true)
}
