package concentrated_liquidity

// C07 / C08 / C01 harnesses over real swaps: two positions with SYMBOLIC liquidity on the five-tick grid (token transfers
// mirrored on a model ledger as CreatePosition does), then a real swapOutAmtGivenIn in either direction with a
// symbolic (sufficient) amount and the price limit at a grid tick, so that the swap walks bucket by bucket, crosses
// every initialized tick on its way (including one exactly at its end) and stops at the limit. Afterwards: the C07
// bookkeeping comparison, claimable spread rewards per position, and full withdrawal of everybody (solvency).

import (
	"context"

	sdk "github.com/cosmos/cosmos-sdk/types"
	banktypes "github.com/cosmos/cosmos-sdk/x/bank/types"

	"github.com/osmosis-labs/osmosis/osmomath"
	clmath "github.com/osmosis-labs/osmosis/v31/x/concentrated-liquidity/math"
)

// signed accounting ledger (bank refusals are outside the claim; solvency is asserted on the signs at the end)
type c08Ledger struct {
	addr  []string
	denom []string
	amt   []osmomath.Int
}

func (l *c08Ledger) get(addr, denom string) osmomath.Int {
	for i := range l.addr {
		if l.addr[i] == addr && l.denom[i] == denom {
			return l.amt[i]
		}
	}
	return osmomath.ZeroInt()
}

func (l *c08Ledger) add(addr, denom string, v osmomath.Int) {
	for i := range l.addr {
		if l.addr[i] == addr && l.denom[i] == denom {
			l.amt[i] = l.amt[i].Add(v)
			return
		}
	}
	l.addr = append(l.addr, addr)
	l.denom = append(l.denom, denom)
	l.amt = append(l.amt, v)
}

type c08Bank struct{ l *c08Ledger }

func (b c08Bank) GetBalance(ctx context.Context, addr sdk.AccAddress, denom string) sdk.Coin {
	return sdk.NewCoin(denom, osmomath.ZeroInt())
}
func (b c08Bank) GetDenomMetaData(ctx context.Context, denom string) (banktypes.Metadata, bool) {
	return banktypes.Metadata{}, false
}
func (b c08Bank) SendCoins(ctx context.Context, from, to sdk.AccAddress, amt sdk.Coins) error {
	for _, c := range amt {
		b.l.add(string(from), c.Denom, c.Amount.Neg())
		b.l.add(string(to), c.Denom, c.Amount)
	}
	return nil
}
func (b c08Bank) HasBalance(ctx context.Context, addr sdk.AccAddress, amt sdk.Coin) bool { return true }
func (b c08Bank) MintCoins(ctx context.Context, name string, amt sdk.Coins) error        { return nil }
func (b c08Bank) SendCoinsFromModuleToAccount(ctx context.Context, senderModule string, recipientAddr sdk.AccAddress, amt sdk.Coins) error {
	return nil
}
func (b c08Bank) BurnCoins(ctx context.Context, name string, amt sdk.Coins) error { return nil }

type c08World struct {
	*c07World
	led                  *c08Ledger
	poolAddr, spreadAddr sdk.AccAddress
}

func c08Setup() *c08World {
	w := &c08World{c07World: c07Setup(0), led: &c08Ledger{}}
	w.k.bankKeeper = c08Bank{w.led}
	pool, err := w.k.getPoolById(w.ctx, 1)
	if err != nil {
		vAssume(false)
	}
	w.poolAddr = pool.GetAddress()
	w.spreadAddr = pool.GetSpreadRewardsAddress()
	return w
}

// liquidity in [1e3, 1e12] units (raw 18 decimals)
func c08Liq(name string) osmomath.Dec {
	raw := vNondetBigRange(name, osmomath.NewIntWithDecimal(1, 21).BigInt(), osmomath.NewIntWithDecimal(1, 30).BigInt())
	return osmomath.NewDecFromBigIntWithPrec(raw, 18)
}

// open a position the way CreatePosition does after its amount-to-liquidity conversion: UpdatePosition, then the
// owner pays the actual amounts into the pool
func (w *c08World) open(id uint64, lower, upper int64, liq osmomath.Dec) bool {
	upd, err := w.k.UpdatePosition(w.ctx, 1, w.owner, lower, upper, liq, w.now, id)
	if err != nil {
		return false
	}
	if err := w.k.sendCoinsBetweenPoolAndUser(w.ctx, "eth", "usdc", upd.Amount0, upd.Amount1, w.owner, w.poolAddr); err != nil {
		return false
	}
	w.pos = append(w.pos, c07Pos{id: id, lower: lower, upper: upper, liq: liq, live: true})
	return true
}

func (w *c08World) initialized(t int64) bool {
	for _, p := range w.pos {
		if p.live && (p.lower == t || p.upper == t) {
			return true
		}
	}
	return false
}

// swap to the grid tick `limit` (zero-for-one when limit < 0); returns false if the swap is refused
func (w *c08World) swapTo(limit int64) (bool, sdk.Coin, sdk.Coin) {
	pool, err := w.k.getPoolById(w.ctx, 1)
	if err != nil {
		return false, sdk.Coin{}, sdk.Coin{}
	}
	amt := osmomath.NewIntFromBigInt(vNondetBigRange("swap_amount", osmomath.NewIntWithDecimal(1, 14).BigInt(), osmomath.NewIntWithDecimal(1, 15).BigInt()))
	inDenom, outDenom := "eth", "usdc"
	if limit > 0 {
		inDenom, outDenom = "usdc", "eth"
	}
	priceLimit, err := clmath.TickToPrice(limit)
	if err != nil {
		return false, sdk.Coin{}, sdk.Coin{}
	}
	in, out, _, err := w.k.swapOutAmtGivenIn(w.ctx, w.owner, pool, sdk.NewCoin(inDenom, amt), outDenom, pool.GetSpreadFactor(w.ctx), priceLimit)
	if err != nil {
		return false, sdk.Coin{}, sdk.Coin{}
	}
	return true, in, out
}

var c08Limits = []int64{-100, -200, 100, 200}

func c08Swap(li int, r1i int) {
	vConfig("lazy_math", 1)
	w := c08Setup()
	r1 := c07Pairs[r1i]
	r2 := c07Pairs[vChoose("range2", c07NPairs2())]
	if !w.open(1, r1[0], r1[1], c08Liq("liq1")) {
		vAssume(false)
	}
	if !w.open(2, r2[0], r2[1], c08Liq("liq2")) {
		vAssume(false)
	}
	limit := c08Limits[li]
	// the swap needs liquidity on its way: the pool is active at the start or becomes active before the limit
	ok, in, out := w.swapTo(limit)
	if !ok {
		vReach("reach-refused")
		// a refused swap changes nothing that C07 observes
		w.check("swap-refused", false)
		return
	}
	vReach("reach")
	// C07: where the pool stands now. Zero-for-one swaps that end exactly on an initialized tick have crossed it.
	sqrtLimit, err := clmath.TickToSqrtPrice(limit)
	if err != nil {
		vAssume(false)
	}
	pool, _ := w.k.getPoolById(w.ctx, 1)
	vAssert(pool.GetCurrentSqrtPrice().Equal(sqrtLimit), "swap:price-at-limit")
	w.cur = limit
	if limit < 0 && w.initialized(limit) {
		w.cur = limit - 1
	}
	vAssert(pool.GetCurrentTick() == w.cur, "swap:current-tick-agrees-with-price-and-direction")
	w.check("swap", false)
	vAssert(in.Amount.IsPositive() && !out.Amount.IsNegative(), "swap:amounts-signs")

	// C08: spread rewards reach only liquidity that was in range while fees accrued
	var claim [2]osmomath.Int
	for i, p := range w.pos {
		c, err := w.k.GetClaimableSpreadRewards(w.ctx, p.id)
		vAssert(err == nil, "rewards:claimable-query-succeeds")
		if err != nil {
			return
		}
		feeDenom := "eth"
		if limit > 0 {
			feeDenom = "usdc"
		}
		claim[i] = c.AmountOf(feeDenom)
		vAssert(len(c) <= 1 && c.AmountOf(feeDenom).Equal(claimTotal(c)), "rewards:only-in-the-token-paid-in")
		never := false
		if limit < 0 {
			never = p.upper <= limit || p.lower >= 0
		} else {
			never = p.upper <= 0 || p.lower >= limit
		}
		if never {
			vAssert(c.IsZero(), "rewards:never-in-range-earns-nothing")
		}
	}
	if r1[0] == r2[0] && r1[1] == r2[1] {
		if w.pos[0].liq.Equal(w.pos[1].liq) {
			vAssert(claim[0].Equal(claim[1]), "rewards:identical-positions-earn-identical-rewards")
		}
	}

	// C01: everybody leaves; nothing the pool owes exceeds what it holds
	for i := range w.pos {
		_, _, err := w.k.WithdrawPosition(w.ctx, w.owner, w.pos[i].id, w.pos[i].liq)
		vAssert(err == nil, "solvency:every-position-can-be-fully-withdrawn")
		if err != nil {
			return
		}
		w.pos[i].live = false
		if i == 0 {
			// bookkeeping still agrees with the remaining position (ticks only it uses are kept, the others removed)
			w.check("after-first-withdrawal", true)
		}
	}
	vAssert(!w.led.get(string(w.poolAddr), "eth").IsNegative(), "solvency:pool-covers-token0-withdrawals")
	vAssert(!w.led.get(string(w.poolAddr), "usdc").IsNegative(), "solvency:pool-covers-token1-withdrawals")
	vAssert(!w.led.get(string(w.spreadAddr), "eth").IsNegative() && !w.led.get(string(w.spreadAddr), "usdc").IsNegative(), "solvency:spread-reward-balance-covers-claims")
}

func claimTotal(c sdk.Coins) osmomath.Int {
	t := osmomath.ZeroInt()
	for _, x := range c {
		t = t.Add(x.Amount)
	}
	return t
}

func VH_C08_swap_down_one_bucket_first_below()                { c08Swap(0, 0) }
func VH_C08_swap_down_one_bucket_first_touching_from_below()  { c08Swap(0, 1) }
func VH_C08_swap_down_one_bucket_first_containing()           { c08Swap(0, 2) }
func VH_C08_swap_down_one_bucket_first_starting_at()          { c08Swap(0, 3) }
func VH_C08_swap_down_one_bucket_first_above()                { c08Swap(0, 4) }
func VH_C08_swap_down_two_buckets_first_below()               { c08Swap(1, 0) }
func VH_C08_swap_down_two_buckets_first_touching_from_below() { c08Swap(1, 1) }
func VH_C08_swap_down_two_buckets_first_containing()          { c08Swap(1, 2) }
func VH_C08_swap_down_two_buckets_first_starting_at()         { c08Swap(1, 3) }
func VH_C08_swap_down_two_buckets_first_above()               { c08Swap(1, 4) }
func VH_C08_swap_up_one_bucket_first_below()                  { c08Swap(2, 0) }
func VH_C08_swap_up_one_bucket_first_touching_from_below()    { c08Swap(2, 1) }
func VH_C08_swap_up_one_bucket_first_containing()             { c08Swap(2, 2) }
func VH_C08_swap_up_one_bucket_first_starting_at()            { c08Swap(2, 3) }
func VH_C08_swap_up_one_bucket_first_above()                  { c08Swap(2, 4) }
func VH_C08_swap_up_two_buckets_first_below()                 { c08Swap(3, 0) }
func VH_C08_swap_up_two_buckets_first_touching_from_below()   { c08Swap(3, 1) }
func VH_C08_swap_up_two_buckets_first_containing()            { c08Swap(3, 2) }
func VH_C08_swap_up_two_buckets_first_starting_at()           { c08Swap(3, 3) }
func VH_C08_swap_up_two_buckets_first_above()                 { c08Swap(3, 4) }
