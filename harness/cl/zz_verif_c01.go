package concentrated_liquidity

// C01 harness with two swaps: one funded position with SYMBOLIC liquidity, two consecutive real swaps (down one bucket,
// then down to the position's lower boundary; or up and up), then the position is withdrawn in full with its spread
// rewards. Fractional fee totals of the two swaps add up, so the spread-reward account must have been credited with
// each swap's fees rounded up for the final claim to be covered.

func c01TwoSwaps(first, second int64) {
	vConfig("lazy_math", 1)
	w := c08Setup()
	if !w.open(1, -200, 200, c08Liq("liq1")) {
		vAssume(false)
	}
	ok1, _, _ := w.swapTo(first)
	if !ok1 {
		vAssume(false)
	}
	ok2, _, _ := w.swapTo(second)
	if !ok2 {
		vAssume(false)
	}
	vReach("reach-two-swaps")
	_, _, err := w.k.WithdrawPosition(w.ctx, w.owner, 1, w.pos[0].liq)
	vAssert(err == nil, "solvency:position-can-be-fully-withdrawn-after-two-swaps")
	if err != nil {
		return
	}
	vReach("reach-withdrawn")
	vAssert(!w.led.get(string(w.poolAddr), "eth").IsNegative(), "solvency:pool-covers-token0-withdrawal")
	vAssert(!w.led.get(string(w.poolAddr), "usdc").IsNegative(), "solvency:pool-covers-token1-withdrawal")
	vAssert(!w.led.get(string(w.spreadAddr), "eth").IsNegative(), "solvency:spread-reward-balance-covers-token0-claims")
	vAssert(!w.led.get(string(w.spreadAddr), "usdc").IsNegative(), "solvency:spread-reward-balance-covers-token1-claims")
}

func VH_C01_two_swaps_down() { c01TwoSwaps(-100, -200) }
func VH_C01_two_swaps_up()   { c01TwoSwaps(100, 200) }
