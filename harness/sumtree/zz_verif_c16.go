package sumtree

// C16 harnesses: the store-backed sum-tree against a sorted-map reference, for all operation sequences of a given
// length over a small ordered key alphabet, with SYMBOLIC amounts (keys and operation kinds are case-split).

import (
	"bytes"
	"fmt"
	"math/big"
	"sort"

	"github.com/osmosis-labs/osmosis/osmomath"
)

// ordered alphabet: the empty key, keys sharing prefixes, the largest single byte
var c16Keys = [][]byte{{}, {0x00}, {0x01}, {0x01, 0x00}, {0xff}}

type c16Ref struct{ vals map[string]*big.Int }

func (r *c16Ref) sortedKeys() []string {
	ks := make([]string, 0, len(r.vals))
	for k := range r.vals {
		ks = append(ks, k)
	}
	sort.Strings(ks)
	return ks
}

// sum over keys k with lo <= k <= hi (nil bounds are open)
func (r *c16Ref) sum(pred func(k string) bool) *big.Int {
	s := new(big.Int)
	for _, k := range r.sortedKeys() {
		if pred(k) {
			s.Add(s, r.vals[k])
		}
	}
	return s
}

func c16Int(x *big.Int) osmomath.Int { return osmomath.NewIntFromBigInt(new(big.Int).Set(x)) }

func c16Amount(name string) *big.Int {
	lim := new(big.Int).Lsh(big.NewInt(1), 64)
	return vNondetBigRange(name, new(big.Int).Neg(lim), lim)
}

// c16Apply performs the i-th operation (kind and key case-split, amount symbolic) on both tree and reference.
func c16Apply(t Tree, ref *c16Ref, i int) {
	kind := vChoose(fmt.Sprintf("kind_%d", i), 4)
	ki := vChoose(fmt.Sprintf("key_%d", i), len(c16Keys))
	key := c16Keys[ki]
	amt := c16Amount(fmt.Sprintf("amt_%d", i))
	ks := string(key)
	switch kind {
	case 0:
		t.Set(key, c16Int(amt))
		ref.vals[ks] = amt
	case 1:
		t.Increase(key, c16Int(amt))
		if old, ok := ref.vals[ks]; ok {
			ref.vals[ks] = new(big.Int).Add(old, amt)
		} else {
			ref.vals[ks] = amt
		}
	case 2:
		t.Decrease(key, c16Int(amt))
		if old, ok := ref.vals[ks]; ok {
			ref.vals[ks] = new(big.Int).Sub(old, amt)
		} else {
			ref.vals[ks] = new(big.Int).Neg(amt)
		}
	default:
		t.Remove(key)
		delete(ref.vals, ks)
	}
}

// c16CheckAll compares every query of the tree with the reference.
func c16CheckAll(t Tree, ref *c16Ref, store *vKV, tag string) {
	zero := new(big.Int)
	for _, key := range c16Keys {
		key := key
		// each query is checked in its own scope so that a query that forks (only possible if the implementation
		// branches on amounts) does not multiply the paths of the following ones
		vScope(func() {
			ks := string(key)
			want, ok := ref.vals[ks]
			if !ok {
				want = zero
			}
			vAssert(t.Get(key).BigIntMut().Cmp(want) == 0, tag+"Get")
			vAssert(t.PrefixSum(key).BigIntMut().Cmp(ref.sum(func(k string) bool { return k <= ks })) == 0, tag+"PrefixSum")
		})
		vScope(func() {
			ks := string(key)
			want, ok := ref.vals[ks]
			if !ok {
				want = zero
			}
			l, e, r := t.SplitAcc(key)
			vAssert(l.BigIntMut().Cmp(ref.sum(func(k string) bool { return k < ks })) == 0, tag+"SplitAcc:left")
			vAssert(e.BigIntMut().Cmp(want) == 0, tag+"SplitAcc:exact")
			vAssert(r.BigIntMut().Cmp(ref.sum(func(k string) bool { return k > ks })) == 0, tag+"SplitAcc:right")
		})
		vScope(func() {
			ks := string(key)
			vAssert(t.SubsetAccumulation(key, nil).BigIntMut().Cmp(ref.sum(func(k string) bool { return k >= ks })) == 0, tag+"Subset:from-key")
		})
		for _, key2 := range c16Keys {
			key2 := key2
			if string(key) <= string(key2) {
				vScope(func() {
					ks, k2 := string(key), string(key2)
					vAssert(t.SubsetAccumulation(key, key2).BigIntMut().Cmp(ref.sum(func(k string) bool { return k >= ks && k <= k2 })) == 0, tag+"Subset:range")
				})
			}
		}
	}
	vAssert(t.TotalAccumulatedValue().BigIntMut().Cmp(ref.sum(func(k string) bool { return true })) == 0, tag+"Total")
	// ordered iteration (forward and reverse) visits exactly the reference keys
	want := ref.sortedKeys()
	var got []string
	it := t.Iterator(nil, nil)
	for ; it.Valid(); it.Next() {
		got = append(got, string(it.Key()[7:]))
	}
	it.Close()
	vAssert(len(got) == len(want), tag+"Iterate:count")
	for i := range want {
		if i < len(got) {
			vAssert(got[i] == want[i], tag+"Iterate:order")
		}
	}
	var rgot []string
	rit := t.ReverseIterator(nil, nil)
	for ; rit.Valid(); rit.Next() {
		rgot = append(rgot, string(rit.Key()[7:]))
	}
	rit.Close()
	vAssert(len(rgot) == len(want), tag+"ReverseIterate:count")
	for i := range want {
		if i < len(rgot) {
			vAssert(rgot[len(rgot)-1-i] == want[i], tag+"ReverseIterate:order")
		}
	}
	// internal aggregates: every branch node's entry for a child equals the sum of that child's entries
	c16CheckAggregates(t, store, tag)
}

func c16CheckAggregates(t Tree, store *vKV, tag string) {
	root := t.root()
	if root == nil {
		return
	}
	for level := root.level; level >= 1; level-- {
		it := t.ptrIterator(level, nil, nil)
		var keys [][]byte
		for ; it.Valid(); it.Next() {
			keys = append(keys, append([]byte{}, it.Key()[7:]...))
		}
		it.Close()
		for _, k := range keys {
			node := t.ptrGet(level, k).node()
			for _, c := range node.Children {
				child := t.ptrGet(level-1, c.Index)
				vAssert(child.exists(), tag+"Aggregate:child-exists")
				if !child.exists() {
					continue
				}
				var sum osmomath.Int
				if level-1 == 0 {
					sum = t.Get(c.Index)
				} else {
					sum = child.node().accumulate()
				}
				vAssert(c.Accumulation.BigIntMut().Cmp(sum.BigIntMut()) == 0, tag+"Aggregate:matches-child")
			}
		}
	}
	_ = bytes.Equal
}

func c16Run(m uint8, nops int, firstKind int) {
	vConfig("unwind", 64)
	store := vNewKV()
	t := NewTree(store, m)
	ref := &c16Ref{vals: map[string]*big.Int{"": new(big.Int)}}
	vReach("reach")
	for i := 0; i < nops; i++ {
		c16Apply(t, ref, i)
	}
	c16CheckAll(t, ref, store, "")
}

func c16Ops() int { return 2 }

// thorough tier: three operations from the empty tree with fan-out 2 (20^3 sequences; the other harnesses keep two
// operations: with every harness at three operations the run needs more than the sandbox's 64 GB)
func c16OpsDeep() int {
	if vTier() == 1 {
		return 3
	}
	return 2
}

func VH_C16_m2() { c16Run(2, c16OpsDeep(), -1) }
func VH_C16_m3() { c16Run(3, c16Ops(), -1) }
func VH_C16_m4() { c16Run(4, c16Ops(), -1) }

// A fixed build-up (all five keys inserted, which forces splits for m = 2 and 3) followed by symbolic operations.
func c16RunBuilt(m uint8, nops int) {
	vConfig("unwind", 64)
	store := vNewKV()
	t := NewTree(store, m)
	ref := &c16Ref{vals: map[string]*big.Int{"": new(big.Int)}}
	for i, k := range [][]byte{{0x01}, {0xff}, {0x00}, {0x01, 0x00}, {}} {
		a := c16Amount(fmt.Sprintf("init_%d", i))
		t.Set(k, c16Int(a))
		ref.vals[string(k)] = a
	}
	vReach("reach")
	c16CheckAll(t, ref, store, "built:")
	for i := 0; i < nops; i++ {
		c16Apply(t, ref, i)
	}
	c16CheckAll(t, ref, store, "after:")
}

func VH_C16_built_m2() { c16RunBuilt(2, c16Ops()) }
func VH_C16_built_m3() { c16RunBuilt(3, c16Ops()) }
func VH_C16_built_m4() { c16RunBuilt(4, c16Ops()) }
