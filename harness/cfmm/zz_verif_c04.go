package cfmm_common

// C04 harnesses (share accounting of classic pools): proportional joins mint at most the proportional share count,
// exits pay at most the proportional reserves; two- and three-asset pools with symbolic reserves, shares, amounts.

import (
	"math/big"

	sdk "github.com/cosmos/cosmos-sdk/types"

	"github.com/osmosis-labs/osmosis/osmomath"
	"github.com/osmosis-labs/osmosis/v31/x/gamm/types"
)

var c04T = new(big.Int).Exp(big.NewInt(10), big.NewInt(18), nil)

// model pool: only the two accessors the library functions use
type c04Pool struct {
	types.CFMMPoolI
	shares osmomath.Int
	liq    sdk.Coins
}

func (p c04Pool) GetTotalShares() osmomath.Int                  { return p.shares }
func (p c04Pool) GetTotalPoolLiquidity(ctx sdk.Context) sdk.Coins { return p.liq }

var c04Denoms = []string{"aaa", "bbb", "ccc"}

func c04Pos(name string, bits uint) *big.Int {
	return vNondetBigRange(name, big.NewInt(1), new(big.Int).Lsh(big.NewInt(1), bits))
}

func c04Int(x *big.Int) osmomath.Int { return osmomath.NewIntFromBigInt(new(big.Int).Set(x)) }

func c04Setup(n int) (c04Pool, []*big.Int, *big.Int) {
	res := make([]*big.Int, n)
	var liq sdk.Coins
	for i := 0; i < n; i++ {
		res[i] = c04Pos("reserve_"+c04Denoms[i], 100)
		liq = append(liq, sdk.Coin{Denom: c04Denoms[i], Amount: c04Int(res[i])})
	}
	shares := c04Pos("total_shares", 120)
	return c04Pool{shares: c04Int(shares), liq: liq}, res, shares
}

func c04Join(n int) {
	p, res, shares := c04Setup(n)
	in := make([]*big.Int, n)
	var tokensIn sdk.Coins
	for i := 0; i < n; i++ {
		in[i] = c04Pos("in_"+c04Denoms[i], 100)
		tokensIn = append(tokensIn, sdk.Coin{Denom: c04Denoms[i], Amount: c04Int(in[i])})
	}
	vReach("reach")
	num, rem, err := MaximalExactRatioJoin(p, sdk.Context{}, tokensIn)
	if err != nil {
		return // refusing a join is always safe (e.g. a share ratio equal to the library's sentinel value)
	}
	ns := num.BigIntMut()
	vAssert(ns.Sign() >= 0, "shares-non-negative")
	for i := 0; i < n; i++ {
		r := rem.AmountOf(c04Denoms[i]).BigIntMut()
		used := new(big.Int).Sub(in[i], r)
		vAssert(r.Sign() >= 0 && used.Sign() >= 0, "remainder-within-input:"+c04Denoms[i])
		// never more than proportional: shares / totalShares <= used_i / reserve_i
		vAssert(new(big.Int).Mul(ns, res[i]).Cmp(new(big.Int).Mul(used, shares)) <= 0, "shares-at-most-proportional:"+c04Denoms[i])
	}
}

func VH_C04_MaximalExactRatioJoin_2() { c04Join(2) }
func VH_C04_MaximalExactRatioJoin_3() { c04Join(3) }

func c04Exit(n int) {
	p, res, shares := c04Setup(n)
	x := c04Pos("exiting_shares", 121)
	fee := vNondetBigRange("exit_fee", new(big.Int), new(big.Int).Sub(c04T, big.NewInt(1)))
	vReach("reach")
	coins, err := CalcExitPool(sdk.Context{}, p, c04Int(x), osmomath.NewDecFromBigIntWithPrec(new(big.Int).Set(fee), 18))
	if x.Cmp(shares) >= 0 {
		vAssert(err != nil, "cannot-exit-all-shares")
		return
	}
	if err != nil {
		return // refusing is always safe
	}
	for i := 0; i < n; i++ {
		out := coins.AmountOf(c04Denoms[i]).BigIntMut()
		// pays at most the proportional reserves after the exit fee: out * S * T <= x * (T - fee) * reserve
		vAssert(new(big.Int).Mul(new(big.Int).Mul(out, shares), c04T).Cmp(new(big.Int).Mul(new(big.Int).Mul(x, new(big.Int).Sub(c04T, fee)), res[i])) <= 0, "pays-at-most-proportional:"+c04Denoms[i])
		vAssert(out.Sign() >= 0 && out.Cmp(res[i]) < 0, "leaves-reserves-positive:"+c04Denoms[i])
	}
}

func VH_C04_CalcExitPool_2() { c04Exit(2) }
func VH_C04_CalcExitPool_3() { c04Exit(3) }

// join then exit of exactly the minted shares returns at most what was used (two assets, no exit fee)
func VH_C04_JoinThenExit() {
	p, res, shares := c04Setup(2)
	in := []*big.Int{c04Pos("in_aaa", 90), c04Pos("in_bbb", 90)}
	tokensIn := sdk.Coins{{Denom: "aaa", Amount: c04Int(in[0])}, {Denom: "bbb", Amount: c04Int(in[1])}}
	vReach("reach")
	num, rem, err := MaximalExactRatioJoin(p, sdk.Context{}, tokensIn)
	if err != nil || !num.IsPositive() {
		return
	}
	used := []*big.Int{new(big.Int).Sub(in[0], rem.AmountOf("aaa").BigIntMut()), new(big.Int).Sub(in[1], rem.AmountOf("bbb").BigIntMut())}
	after := c04Pool{shares: c04Int(new(big.Int).Add(shares, num.BigIntMut())), liq: sdk.Coins{{Denom: "aaa", Amount: c04Int(new(big.Int).Add(res[0], used[0]))}, {Denom: "bbb", Amount: c04Int(new(big.Int).Add(res[1], used[1]))}}}
	out, err2 := CalcExitPool(sdk.Context{}, after, num, osmomath.ZeroDec())
	if err2 != nil {
		return
	}
	vAssert(out.AmountOf("aaa").BigIntMut().Cmp(used[0]) <= 0, "round-trip-returns-at-most-deposit:aaa")
	vAssert(out.AmountOf("bbb").BigIntMut().Cmp(used[1]) <= 0, "round-trip-returns-at-most-deposit:bbb")
}
