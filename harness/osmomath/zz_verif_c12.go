package osmomath

// C12 harnesses: every BigDec / BigInt arithmetic, rounding and conversion method against an independent
// specification, for all operands of both signs up to the type's own bit-length bound.
// Executed symbolically by gosym (functions v* are engine intrinsics) and natively for replay.

import (
	"math/big"
)

// ---------------------------------------------------------------- specification

var (
	c12S    = new(big.Int).Exp(big.NewInt(10), big.NewInt(36), nil) // 10^36
	c12T    = new(big.Int).Exp(big.NewInt(10), big.NewInt(18), nil) // 10^18
	c12Lim  = new(big.Int).Lsh(big.NewInt(1), 1144)                 // BigDec magnitude bound (exclusive)
	c12LimI = new(big.Int).Lsh(big.NewInt(1), 1024)                 // BigInt magnitude bound (exclusive)
	c12LimD = new(big.Int).Lsh(big.NewInt(1), 315)                  // LegacyDec magnitude bound (exclusive)
)

func c12Fits(x, lim *big.Int) bool { return x.CmpAbs(lim) < 0 }

// toward zero
func c12Tz(n, d *big.Int) *big.Int { return new(big.Int).Quo(n, d) }

// toward plus infinity
func c12Up(n, d *big.Int) *big.Int {
	q, r := new(big.Int).QuoRem(n, d, new(big.Int))
	// the truncated quotient is below the exact one iff the exact quotient is positive and inexact
	if r.Sign() != 0 && r.Sign() == d.Sign() {
		q.Add(q, big.NewInt(1))
	}
	return q
}

// nearest, ties to even
func c12He(n, d *big.Int) *big.Int {
	q, r := new(big.Int).QuoRem(n, d, new(big.Int))
	twice := new(big.Int).Lsh(new(big.Int).Abs(r), 1)
	c := twice.CmpAbs(d)
	away := c > 0 || (c == 0 && q.Bit(0) == 1)
	if away {
		if r.Sign() == d.Sign() {
			q.Add(q, big.NewInt(1))
		} else {
			q.Sub(q, big.NewInt(1))
		}
	}
	return q
}

func c12Operand(name string, lim *big.Int) *big.Int {
	max := new(big.Int).Sub(lim, big.NewInt(1))
	return vNondetBigRange(name, new(big.Int).Neg(max), max)
}

func c12BD(a *big.Int) BigDec { return BigDec{i: new(big.Int).Set(a)} }
func c12Dec(a *big.Int) Dec   { return NewDecFromBigIntWithPrec(new(big.Int).Set(a), DecPrecision) }
func c12BI(a *big.Int) BigInt { return BigInt{i: new(big.Int).Set(a)} }

// The three rounding specifications are themselves validated against their relational definitions.
func VH_C12_spec_selfcheck() {
	n := c12Operand("n", new(big.Int).Lsh(big.NewInt(1), 2400))
	d := c12Operand("d", c12Lim)
	vAssume(d.Sign() != 0)
	vReach("reach")
	ad := new(big.Int).Abs(d)
	// toward zero: |q*d| <= |n| < |q*d| + |d| and q*d has the sign of n (or is zero)
	q := c12Tz(n, d)
	qd := new(big.Int).Mul(q, d)
	vAssert(qd.CmpAbs(n) <= 0, "tz:not-above")
	vAssert(new(big.Int).Add(new(big.Int).Abs(qd), ad).CmpAbs(n) > 0, "tz:within-one")
	vAssert(qd.Sign() == 0 || qd.Sign() == n.Sign(), "tz:sign")
	// toward +inf: least integer u with u >= n/d
	u := c12Up(n, d)
	ud := new(big.Int).Mul(u, d)
	u1d := new(big.Int).Sub(ud, d)
	if d.Sign() > 0 {
		vAssert(ud.Cmp(n) >= 0, "up:ge(d>0)")
		vAssert(u1d.Cmp(n) < 0, "up:least(d>0)")
	} else {
		vAssert(ud.Cmp(n) <= 0, "up:ge(d<0)")
		vAssert(u1d.Cmp(n) > 0, "up:least(d<0)")
	}
	// half-even: |2(n - h*d)| <= |d|, and on a tie h is even
	h := c12He(n, d)
	diff2 := new(big.Int).Lsh(new(big.Int).Sub(n, new(big.Int).Mul(h, d)), 1)
	vAssert(diff2.CmpAbs(d) <= 0, "he:nearest")
	vAssert(diff2.CmpAbs(d) < 0 || h.Bit(0) == 0, "he:tie-even")
}

// ---------------------------------------------------------------- generic checkers

type c12Bin func(x, y BigDec) BigDec
type c12BinDec func(x BigDec, y Dec) BigDec

// c12Check2 checks a BigDec x BigDec operation (and its mutating twin) against want.
func c12Check2(a, b, want *big.Int, op, mut c12Bin) {
	x, y := c12BD(a), c12BD(b)
	var r BigDec
	p := vPanics(func() { r = op(x, y) })
	vReach("reach")
	vAssert(p == !c12Fits(want, c12Lim), "panics-iff-overflow")
	if !p {
		vAssert(r.i.Cmp(want) == 0, "value")
		vAssert(x.i.Cmp(a) == 0, "receiver-untouched")
		vAssert(y.i.Cmp(b) == 0, "argument-untouched")
	}
	if mut != nil {
		xm, ym := c12BD(a), c12BD(b)
		var rm BigDec
		pm := vPanics(func() { rm = mut(xm, ym) })
		vAssert(pm == p, "mut:panics-same")
		if !pm {
			vAssert(rm.i.Cmp(want) == 0, "mut:value")
			vAssert(ym.i.Cmp(b) == 0, "mut:argument-untouched")
		}
	}
}

func c12Check2Dec(a, b, want *big.Int, op, mut c12BinDec) {
	x, y := c12BD(a), c12Dec(b)
	var r BigDec
	p := vPanics(func() { r = op(x, y) })
	vReach("reach")
	vAssert(p == !c12Fits(want, c12Lim), "panics-iff-overflow")
	if !p {
		vAssert(r.i.Cmp(want) == 0, "value")
		vAssert(x.i.Cmp(a) == 0, "receiver-untouched")
		vAssert(y.BigIntMut().Cmp(b) == 0, "argument-untouched")
	}
	if mut != nil {
		xm, ym := c12BD(a), c12Dec(b)
		var rm BigDec
		pm := vPanics(func() { rm = mut(xm, ym) })
		vAssert(pm == p, "mut:panics-same")
		if !pm {
			vAssert(rm.i.Cmp(want) == 0, "mut:value")
			vAssert(ym.BigIntMut().Cmp(b) == 0, "mut:argument-untouched")
		}
	}
}

// ---------------------------------------------------------------- add / sub / neg / abs

func VH_C12_Add() {
	a, b := c12Operand("a", c12Lim), c12Operand("b", c12Lim)
	c12Check2(a, b, new(big.Int).Add(a, b), BigDec.Add, BigDec.AddMut)
}

func VH_C12_Sub() {
	a, b := c12Operand("a", c12Lim), c12Operand("b", c12Lim)
	c12Check2(a, b, new(big.Int).Sub(a, b), BigDec.Sub, BigDec.SubMut)
}

func VH_C12_NegAbs() {
	a := c12Operand("a", c12Lim)
	x := c12BD(a)
	vReach("reach")
	vAssert(x.Neg().i.Cmp(new(big.Int).Neg(a)) == 0, "neg")
	vAssert(x.Abs().i.Cmp(new(big.Int).Abs(a)) == 0, "abs")
	vAssert(x.i.Cmp(a) == 0, "untouched")
	xm := c12BD(a)
	vAssert(xm.NegMut().i.Cmp(new(big.Int).Neg(a)) == 0, "negmut")
	xm2 := c12BD(a)
	vAssert(xm2.AbsMut().i.Cmp(new(big.Int).Abs(a)) == 0, "absmut")
	cl := x.Clone()
	vAssert(cl.i.Cmp(a) == 0 && cl.i != x.i, "clone")
}

// ---------------------------------------------------------------- multiply family

func VH_C12_Mul() {
	a, b := c12Operand("a", c12Lim), c12Operand("b", c12Lim)
	c12Check2(a, b, c12He(new(big.Int).Mul(a, b), c12S), BigDec.Mul, BigDec.MulMut)
}

func VH_C12_MulTruncate() {
	a, b := c12Operand("a", c12Lim), c12Operand("b", c12Lim)
	c12Check2(a, b, c12Tz(new(big.Int).Mul(a, b), c12S), BigDec.MulTruncate, nil)
}

func VH_C12_MulRoundUp() {
	a, b := c12Operand("a", c12Lim), c12Operand("b", c12Lim)
	c12Check2(a, b, c12Up(new(big.Int).Mul(a, b), c12S), BigDec.MulRoundUp, nil)
}

func VH_C12_MulDec() {
	a, b := c12Operand("a", c12Lim), c12Operand("b", c12LimD)
	c12Check2Dec(a, b, c12He(new(big.Int).Mul(a, b), c12T), BigDec.MulDec, BigDec.MulDecMut)
}

func VH_C12_MulTruncateDec() {
	a, b := c12Operand("a", c12Lim), c12Operand("b", c12LimD)
	c12Check2Dec(a, b, c12Tz(new(big.Int).Mul(a, b), c12T), BigDec.MulTruncateDec, nil)
}

func VH_C12_MulRoundUpDec() {
	a, b := c12Operand("a", c12Lim), c12Operand("b", c12LimD)
	c12Check2Dec(a, b, c12Up(new(big.Int).Mul(a, b), c12T), BigDec.MulRoundUpDec, nil)
}

func VH_C12_MulInt() {
	a, b := c12Operand("a", c12Lim), c12Operand("b", c12LimI)
	x, y := c12BD(a), c12BI(b)
	want := new(big.Int).Mul(a, b)
	var r BigDec
	p := vPanics(func() { r = x.MulInt(y) })
	vReach("reach")
	vAssert(p == !c12Fits(want, c12Lim), "panics-iff-overflow")
	if !p {
		vAssert(r.i.Cmp(want) == 0, "value")
		vAssert(x.i.Cmp(a) == 0 && y.i.Cmp(b) == 0, "operands-untouched")
	}
}

func VH_C12_MulInt64() {
	a := c12Operand("a", c12Lim)
	k := vNondetI64("k")
	x := c12BD(a)
	want := new(big.Int).Mul(a, big.NewInt(k))
	var r BigDec
	p := vPanics(func() { r = x.MulInt64(k) })
	vReach("reach")
	vAssert(p == !c12Fits(want, c12Lim), "panics-iff-overflow")
	if !p {
		vAssert(r.i.Cmp(want) == 0, "value")
		vAssert(x.i.Cmp(a) == 0, "receiver-untouched")
	}
}

// ---------------------------------------------------------------- divide family

func c12Divisor(name string, lim *big.Int) *big.Int {
	b := c12Operand(name, lim)
	vAssume(b.Sign() != 0)
	return b
}

func VH_C12_Quo() {
	a, b := c12Operand("a", c12Lim), c12Divisor("b", c12Lim)
	// half-even of the quotient truncated at 72 decimals
	n := new(big.Int).Mul(a, new(big.Int).Mul(c12S, c12S))
	want := c12He(c12Tz(n, b), c12S)
	c12Check2(a, b, want, BigDec.Quo, BigDec.QuoMut)
}

func VH_C12_QuoTruncate() {
	a, b := c12Operand("a", c12Lim), c12Divisor("b", c12Lim)
	c12Check2(a, b, c12Tz(new(big.Int).Mul(a, c12S), b), BigDec.QuoTruncate, BigDec.QuoTruncateMut)
}

func VH_C12_QuoRoundUp() {
	a, b := c12Operand("a", c12Lim), c12Divisor("b", c12Lim)
	c12Check2(a, b, c12Up(new(big.Int).Mul(a, c12S), b), BigDec.QuoRoundUp, BigDec.QuoRoundUpMut)
}

func VH_C12_QuoTruncateDec() {
	a, b := c12Operand("a", c12Lim), c12Divisor("b", c12LimD)
	c12Check2Dec(a, b, c12Tz(new(big.Int).Mul(a, c12T), b), BigDec.QuoTruncateDec, BigDec.QuoTruncateDecMut)
}

func VH_C12_QuoByDecRoundUp() {
	a, b := c12Operand("a", c12Lim), c12Divisor("b", c12LimD)
	c12Check2Dec(a, b, c12Up(new(big.Int).Mul(a, c12T), b), BigDec.QuoByDecRoundUp, nil)
}

func VH_C12_QuoRoundUpNextIntMut() {
	a, b := c12Operand("a", c12Lim), c12Divisor("b", c12Lim)
	want := new(big.Int).Mul(c12Up(a, b), c12S)
	x, y := c12BD(a), c12BD(b)
	var r BigDec
	p := vPanics(func() { r = x.QuoRoundUpNextIntMut(y) })
	vReach("reach")
	vAssert(p == !c12Fits(want, c12Lim), "panics-iff-overflow")
	if !p {
		vAssert(r.i.Cmp(want) == 0, "value")
		vAssert(y.i.Cmp(b) == 0, "argument-untouched")
	}
}

func VH_C12_QuoRaw() {
	a := c12Operand("a", c12Lim)
	k := vNondetI64("k")
	vAssume(k != 0)
	x := c12BD(a)
	want := c12He(c12Tz(new(big.Int).Mul(a, c12S), big.NewInt(k)), c12S)
	var r BigDec
	p := vPanics(func() { r = x.QuoRaw(k) })
	vReach("reach")
	vAssert(p == !c12Fits(want, c12Lim), "panics-iff-overflow")
	if !p {
		vAssert(r.i.Cmp(want) == 0, "value")
		vAssert(x.i.Cmp(a) == 0, "receiver-untouched")
	}
}

func VH_C12_QuoInt() {
	a, b := c12Operand("a", c12Lim), c12Divisor("b", c12LimI)
	x, y := c12BD(a), c12BI(b)
	r := x.QuoInt(y)
	vReach("reach")
	vAssert(r.i.Cmp(c12Tz(a, b)) == 0, "value")
	vAssert(x.i.Cmp(a) == 0 && y.i.Cmp(b) == 0, "operands-untouched")
	k := vNondetI64("k")
	vAssume(k != 0)
	r2 := x.QuoInt64(k)
	vAssert(r2.i.Cmp(c12Tz(a, big.NewInt(k))) == 0, "int64:value")
	vAssert(x.i.Cmp(a) == 0, "int64:receiver-untouched")
}

func VH_C12_DivByZeroPanics() {
	a := c12Operand("a", c12Lim)
	z := new(big.Int)
	vReach("reach")
	vAssert(vPanics(func() { c12BD(a).Quo(c12BD(z)) }), "Quo")
	vAssert(vPanics(func() { c12BD(a).QuoMut(c12BD(z)) }), "QuoMut")
	vAssert(vPanics(func() { c12BD(a).QuoTruncate(c12BD(z)) }), "QuoTruncate")
	vAssert(vPanics(func() { c12BD(a).QuoTruncateMut(c12BD(z)) }), "QuoTruncateMut")
	vAssert(vPanics(func() { c12BD(a).QuoRoundUp(c12BD(z)) }), "QuoRoundUp")
	vAssert(vPanics(func() { c12BD(a).QuoRoundUpMut(c12BD(z)) }), "QuoRoundUpMut")
	vAssert(vPanics(func() { c12BD(a).QuoRoundUpNextIntMut(c12BD(z)) }), "QuoRoundUpNextIntMut")
	vAssert(vPanics(func() { c12BD(a).QuoTruncateDec(c12Dec(z)) }), "QuoTruncateDec")
	vAssert(vPanics(func() { c12BD(a).QuoByDecRoundUp(c12Dec(z)) }), "QuoByDecRoundUp")
	vAssert(vPanics(func() { c12BD(a).QuoRaw(0) }), "QuoRaw")
	vAssert(vPanics(func() { c12BD(a).QuoInt64(0) }), "QuoInt64")
	vAssert(vPanics(func() { c12BD(a).QuoInt(c12BI(z)) }), "QuoInt")
}

// ---------------------------------------------------------------- ceiling / truncation / rounding to integers

func VH_C12_Ceil() {
	a := c12Operand("a", c12Lim)
	x := c12BD(a)
	want := new(big.Int).Mul(c12Up(a, c12S), c12S)
	r := x.Ceil()
	vReach("reach")
	vAssert(r.i.Cmp(want) == 0, "value")
	vAssert(x.i.Cmp(a) == 0, "receiver-untouched")
	xm := c12BD(a)
	rm := xm.CeilMut()
	vAssert(rm.i.Cmp(want) == 0, "mut:value")
}

func VH_C12_Truncate() {
	a := c12Operand("a", c12Lim)
	x := c12BD(a)
	want := c12Tz(a, c12S)
	vReach("reach")
	var ti BigInt
	pt := vPanics(func() { ti = x.TruncateInt() })
	// BigInt constructor refuses values beyond 1024 bits
	vAssert(pt == !c12Fits(want, c12LimI), "TruncateInt:panics-iff-overflow")
	if !pt {
		vAssert(ti.i.Cmp(want) == 0, "TruncateInt")
	}
	vAssert(x.TruncateDec().i.Cmp(new(big.Int).Mul(want, c12S)) == 0, "TruncateDec")
	vAssert(x.i.Cmp(a) == 0, "receiver-untouched")
	var t64 int64
	p := vPanics(func() { t64 = x.TruncateInt64() })
	vAssert(p == !want.IsInt64(), "TruncateInt64:panics-iff-out-of-range")
	if !p {
		vAssert(big.NewInt(t64).Cmp(want) == 0, "TruncateInt64")
	}
	vAssert(x.IsInteger() == (new(big.Int).Mul(want, c12S).Cmp(a) == 0), "IsInteger")
}

func VH_C12_Round() {
	a := c12Operand("a", c12Lim)
	x := c12BD(a)
	want := c12He(a, c12S)
	vReach("reach")
	var ri BigInt
	pr := vPanics(func() { ri = x.RoundInt() })
	vAssert(pr == !c12Fits(want, c12LimI), "RoundInt:panics-iff-overflow")
	if !pr {
		vAssert(ri.i.Cmp(want) == 0, "RoundInt")
	}
	vAssert(x.i.Cmp(a) == 0, "receiver-untouched")
	var r64 int64
	p := vPanics(func() { r64 = x.RoundInt64() })
	vAssert(p == !want.IsInt64(), "RoundInt64:panics-iff-out-of-range")
	if !p {
		vAssert(big.NewInt(r64).Cmp(want) == 0, "RoundInt64")
	}
	vAssert(x.i.Cmp(a) == 0, "receiver-untouched-2")
}

// ---------------------------------------------------------------- precision conversion

func VH_C12_Dec() {
	a := c12Operand("a", c12Lim)
	x := c12BD(a)
	vReach("reach")
	vAssert(x.Dec().BigIntMut().Cmp(c12Tz(a, c12T)) == 0, "Dec:truncates")
	vAssert(x.DecRoundUp().BigIntMut().Cmp(c12Up(a, c12T)) == 0, "DecRoundUp:ceiling")
	vAssert(x.i.Cmp(a) == 0, "receiver-untouched")
}

func VH_C12_DecWithPrecision() {
	a := c12Operand("a", c12Lim)
	p := uint64(vChoose("p", 20))
	x := c12BD(a)
	vReach("reach")
	var r Dec
	pan := vPanics(func() { r = x.DecWithPrecision(p) })
	vAssert(pan == (p > 18), "panics-iff-precision-too-large")
	if !pan {
		f36 := new(big.Int).Exp(big.NewInt(10), big.NewInt(int64(36-p)), nil)
		f18 := new(big.Int).Exp(big.NewInt(10), big.NewInt(int64(18-p)), nil)
		vAssert(r.BigIntMut().Cmp(new(big.Int).Mul(c12Tz(a, f36), f18)) == 0, "value")
		vAssert(x.i.Cmp(a) == 0, "receiver-untouched")
	}
}

func VH_C12_ChopPrecision() {
	a := c12Operand("a", c12Lim)
	p := uint64(vChoose("p", 38))
	x := c12BD(a)
	vReach("reach")
	var r BigDec
	pan := vPanics(func() { r = x.ChopPrecision(p) })
	vAssert(pan == (p > 36), "panics-iff-precision-too-large")
	if !pan {
		f := new(big.Int).Exp(big.NewInt(10), big.NewInt(int64(36-p)), nil)
		want := new(big.Int).Mul(c12Tz(a, f), f)
		vAssert(r.i.Cmp(want) == 0, "value")
		vAssert(x.i.Cmp(a) == 0, "receiver-untouched")
		xm := c12BD(a)
		rm := xm.ChopPrecisionMut(p)
		vAssert(rm.i.Cmp(want) == 0, "mut:value")
	}
}

func VH_C12_FromDec() {
	b := c12Operand("b", c12LimD)
	c := c12Operand("c", c12LimD)
	d := c12Dec(b)
	vReach("reach")
	vAssert(BigDecFromDec(d).i.Cmp(new(big.Int).Mul(b, c12T)) == 0, "BigDecFromDec")
	vAssert(d.BigIntMut().Cmp(b) == 0, "BigDecFromDec:argument-untouched")
	vAssert(BigDecFromDecMut(c12Dec(b)).i.Cmp(new(big.Int).Mul(b, c12T)) == 0, "BigDecFromDecMut")
	k := c12Operand("k", new(big.Int).Lsh(big.NewInt(1), 256)) // sdk Int bound
	i := NewIntFromBigInt(new(big.Int).Set(k))
	vAssert(BigDecFromSDKInt(i).i.Cmp(new(big.Int).Mul(k, c12S)) == 0, "BigDecFromSDKInt")
	vAssert(i.BigIntMut().Cmp(k) == 0, "BigDecFromSDKInt:argument-untouched")
	e := c12Dec(c)
	vAssert(NewBigDecFromDecMulDec(d, e).i.Cmp(new(big.Int).Mul(b, c)) == 0, "NewBigDecFromDecMulDec")
	vAssert(d.BigIntMut().Cmp(b) == 0 && e.BigIntMut().Cmp(c) == 0, "NewBigDecFromDecMulDec:arguments-untouched")
	vAssert(NewBigDecFromBigInt(b).i.Cmp(new(big.Int).Mul(b, c12S)) == 0, "NewBigDecFromBigInt")
	bi := c12BI(b)
	vAssert(NewBigDecFromInt(bi).i.Cmp(new(big.Int).Mul(b, c12S)) == 0, "NewBigDecFromInt")
	vAssert(bi.ToDec().i.Cmp(new(big.Int).Mul(b, c12S)) == 0, "BigInt.ToDec")
}

// ---------------------------------------------------------------- BigInt

func VH_C12_BigInt() {
	a, b := c12Operand("a", c12LimI), c12Operand("b", c12LimI)
	x, y := c12BI(a), c12BI(b)
	vReach("reach")
	var r BigInt
	sum := new(big.Int).Add(a, b)
	p := vPanics(func() { r = x.Add(y) })
	vAssert(p == !c12Fits(sum, c12LimI), "Add:panics-iff-overflow")
	if !p {
		vAssert(r.i.Cmp(sum) == 0, "Add")
	}
	diff := new(big.Int).Sub(a, b)
	p = vPanics(func() { r = x.Sub(y) })
	vAssert(p == !c12Fits(diff, c12LimI), "Sub:panics-iff-overflow")
	if !p {
		vAssert(r.i.Cmp(diff) == 0, "Sub")
	}
	vAssert(x.Neg().i.Cmp(new(big.Int).Neg(a)) == 0, "Neg")
	vAssert(x.Abs().i.Cmp(new(big.Int).Abs(a)) == 0, "Abs")
	mn, mx := MinBigInt(x, y), MaxBigInt(x, y)
	vAssert(mn.i.Cmp(a) <= 0 && mn.i.Cmp(b) <= 0 && (mn.i.Cmp(a) == 0 || mn.i.Cmp(b) == 0), "Min")
	vAssert(mx.i.Cmp(a) >= 0 && mx.i.Cmp(b) >= 0 && (mx.i.Cmp(a) == 0 || mx.i.Cmp(b) == 0), "Max")
	vAssert(x.i.Cmp(a) == 0 && y.i.Cmp(b) == 0, "operands-untouched")
}

func VH_C12_BigIntQuoMod() {
	a, b := c12Operand("a", c12LimI), c12Operand("b", c12LimI)
	x, y := c12BI(a), c12BI(b)
	vReach("reach")
	var q, m BigInt
	pq := vPanics(func() { q = x.Quo(y) })
	vAssert(pq == (b.Sign() == 0), "Quo:panics-iff-zero-divisor")
	if !pq {
		vAssert(q.i.Cmp(c12Tz(a, b)) == 0, "Quo")
	}
	pm := vPanics(func() { m = x.Mod(y) })
	vAssert(pm == (b.Sign() == 0), "Mod:panics-iff-zero-divisor")
	if !pm {
		// Euclidean modulus: 0 <= m < |b| and b divides a-m
		vAssert(m.i.Sign() >= 0 && m.i.CmpAbs(b) < 0, "Mod:range")
		vAssert(new(big.Int).Add(new(big.Int).Mul(new(big.Int).Div(a, b), b), m.i).Cmp(a) == 0, "Mod:congruent")
	}
	vAssert(x.i.Cmp(a) == 0 && y.i.Cmp(b) == 0, "operands-untouched")
}

// BigInt.Mul pre-checks BitLen(a)+BitLen(b)-1 before multiplying. The sum of two symbolic bit lengths needs
// 2^(la+lb) reasoning that is outside linear/non-linear integer arithmetic, so the bit length of the first
// operand is case-split (concrete la, symbolic a with 2^(la-1) <= |a| < 2^la, fully symbolic b).
// quick: 12 representative la; thorough: every la in 0..1024.
var c12MulBitLens = []int{0, 1, 2, 63, 64, 65, 511, 512, 513, 1022, 1023, 1024}

func VH_C12_BigIntMul() {
	vConfig("bitlen_dense", 1030) // characterise BitLen at every threshold 0..1030
	var la int
	if vTier() == 1 {
		la = vChoose("la", 1025)
	} else {
		la = c12MulBitLens[vChoose("la_idx", len(c12MulBitLens))]
	}
	a, b := c12Operand("a", c12LimI), c12Operand("b", c12LimI)
	if la == 0 {
		vAssume(a.Sign() == 0)
	} else {
		vAssume(a.CmpAbs(new(big.Int).Lsh(big.NewInt(1), uint(la-1))) >= 0)
		vAssume(a.CmpAbs(new(big.Int).Lsh(big.NewInt(1), uint(la))) < 0)
	}
	x, y := c12BI(a), c12BI(b)
	vReach("reach")
	prod := new(big.Int).Mul(a, b)
	var r BigInt
	p := vPanics(func() { r = x.Mul(y) })
	vAssert(p == !c12Fits(prod, c12LimI), "Mul:panics-iff-overflow")
	if !p {
		vAssert(r.i.Cmp(prod) == 0, "Mul")
		vAssert(x.i.Cmp(a) == 0 && y.i.Cmp(b) == 0, "operands-untouched")
	}
}

// ---------------------------------------------------------------- DivIntByU64ToBigDec

func VH_C12_DivIntByU64() {
	a := c12Operand("a", new(big.Int).Lsh(big.NewInt(1), 256))
	u := vNondetU64("u")
	mode := RoundingDirection(vChoose("mode", 5))
	i := NewIntFromBigInt(new(big.Int).Set(a))
	vReach("reach")
	r, err := DivIntByU64ToBigDec(i, u, mode)
	if u == 0 || mode == RoundUnconstrained || mode > RoundBankers {
		vAssert(err != nil, "error-on-invalid")
		return
	}
	vAssert(err == nil, "no-error")
	n := new(big.Int).Mul(a, c12S)
	d := new(big.Int).SetUint64(u)
	switch mode {
	case RoundUp:
		vAssert(r.i.Cmp(c12Up(n, d)) == 0, "RoundUp")
	case RoundDown:
		vAssert(r.i.Cmp(c12Tz(n, d)) == 0, "RoundDown")
	case RoundBankers:
		vAssert(r.i.Cmp(c12He(c12Tz(new(big.Int).Mul(n, c12S), d), c12S)) == 0, "RoundBankers")
	}
	vAssert(i.BigIntMut().Cmp(a) == 0, "argument-untouched")
}

// ---------------------------------------------------------------- SigFigRound leaves its argument untouched

func VH_C12_SigFigRoundOperand() {
	// positive values only: for d <= 0 the scaling loop of SigFigRound does not terminate normally (see C13)
	b := c12Operand("b", new(big.Int).Lsh(big.NewInt(1), 200))
	vAssume(b.Sign() > 0)
	s := int64(vChoose("s", 4)) + 1
	d := c12Dec(b)
	ten := NewIntFromBigInt(new(big.Int).Exp(big.NewInt(10), big.NewInt(s), nil))
	vConfig("unwind", 24)
	_ = SigFigRound(d, ten)
	vReach("reach")
	vAssert(d.BigIntMut().Cmp(b) == 0, "argument-untouched")
}
