package osmomath

import "math/big"

// smoke harness: QuoRoundUp with positive divisor is the ceiling
func VH_C12_smoke_QuoRoundUp() {
	a := vNondetBig("a")
	b := vNondetBig("b")
	lim := new(big.Int).Lsh(big.NewInt(1), 256)
	vAssume(a.CmpAbs(lim) < 0)
	vAssume(b.CmpAbs(lim) < 0)
	vAssume(b.Sign() > 0)
	x := BigDec{i: new(big.Int).Set(a)}
	y := BigDec{i: new(big.Int).Set(b)}
	r := x.QuoRoundUp(y)
	vReach("after")
	// r*b >= a*10^36 > (r-1)*b
	n := new(big.Int).Mul(a, defaultBigDecPrecisionReuse)
	rb := new(big.Int).Mul(r.i, b)
	r1b := new(big.Int).Sub(rb, b)
	vAssert(rb.Cmp(n) >= 0, "ceil-upper")
	vAssert(r1b.Cmp(n) < 0, "ceil-lower")
	vAssert(x.i.Cmp(a) == 0, "operand-untouched")
}
