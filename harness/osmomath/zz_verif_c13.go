package osmomath

// C13 harnesses: monotone square roots, tolerance comparison, binary search post-condition, domain checks
// of Exp2 / Pow / logarithms, integer/fraction structure of Exp2 and Pow.

import (
	"fmt"
	"math/big"
)

func c13Sym(name string, bits uint, signed bool) *big.Int {
	max := new(big.Int).Sub(new(big.Int).Lsh(big.NewInt(1), bits), big.NewInt(1))
	lo := new(big.Int)
	if signed {
		lo = new(big.Int).Neg(max)
	}
	return vNondetBigRange(name, lo, max)
}

var (
	c13T = new(big.Int).Exp(big.NewInt(10), big.NewInt(18), nil)
	c13S = new(big.Int).Exp(big.NewInt(10), big.NewInt(36), nil)
)

// MonotonicSqrt (18 decimals): least r >= 0 with r^2 >= d; monotone; negative input is an error; argument untouched.
func VH_C13_MonotonicSqrt() {
	a := c13Sym("a", 315, false)
	b := c13Sym("b", 315, false)
	da := NewDecFromBigIntWithPrec(new(big.Int).Set(a), 18)
	db := NewDecFromBigIntWithPrec(new(big.Int).Set(b), 18)
	vReach("reach")
	ra, ea := MonotonicSqrt(da)
	rb, eb := MonotonicSqrt(db)
	vAssert(ea == nil && eb == nil, "no-error")
	r := ra.BigIntMut()
	vAssert(r.Sign() >= 0, "non-negative")
	target := new(big.Int).Mul(a, c13T)
	vAssert(new(big.Int).Mul(r, r).Cmp(target) >= 0, "square-at-least-input")
	rm := new(big.Int).Sub(r, big.NewInt(1))
	vAssert(r.Sign() == 0 || new(big.Int).Mul(rm, rm).Cmp(target) < 0, "least")
	vAssert(da.BigIntMut().Cmp(a) == 0, "argument-untouched")
	vAssert(a.Cmp(b) > 0 || r.Cmp(rb.BigIntMut()) <= 0, "monotone")
	rmut, em := MonotonicSqrtMut(NewDecFromBigIntWithPrec(new(big.Int).Set(a), 18))
	vAssert(em == nil && rmut.BigIntMut().Cmp(r) == 0, "mut-same-value")
}

func VH_C13_MonotonicSqrtBigDec() {
	a := c13Sym("a", 1024, false)
	b := c13Sym("b", 1024, false)
	da := BigDec{i: new(big.Int).Set(a)}
	db := BigDec{i: new(big.Int).Set(b)}
	vReach("reach")
	ra, ea := MonotonicSqrtBigDec(da)
	rb, eb := MonotonicSqrtBigDec(db)
	vAssert(ea == nil && eb == nil, "no-error")
	r := ra.i
	vAssert(r.Sign() >= 0, "non-negative")
	target := new(big.Int).Mul(a, c13S)
	vAssert(new(big.Int).Mul(r, r).Cmp(target) >= 0, "square-at-least-input")
	rm := new(big.Int).Sub(r, big.NewInt(1))
	vAssert(r.Sign() == 0 || new(big.Int).Mul(rm, rm).Cmp(target) < 0, "least")
	vAssert(da.i.Cmp(a) == 0, "argument-untouched")
	vAssert(a.Cmp(b) > 0 || r.Cmp(rb.i) <= 0, "monotone")
	rmut, em := MonotonicSqrtBigDecMut(BigDec{i: new(big.Int).Set(a)})
	vAssert(em == nil && rmut.i.Cmp(r) == 0, "mut-same-value")
}

func VH_C13_SqrtNegativeIsError() {
	a := c13Sym("a", 315, true)
	vAssume(a.Sign() < 0)
	vReach("reach")
	_, e1 := MonotonicSqrt(NewDecFromBigIntWithPrec(new(big.Int).Set(a), 18))
	vAssert(e1 != nil, "Dec:error")
	_, e2 := MonotonicSqrtBigDec(BigDec{i: new(big.Int).Set(a)})
	vAssert(e2 != nil, "BigDec:error")
	vAssert(vPanics(func() { MustMonotonicSqrt(NewDecFromBigIntWithPrec(new(big.Int).Set(a), 18)) }), "Must:panics")
	vAssert(vPanics(func() { MustMonotonicSqrtBigDec(BigDec{i: new(big.Int).Set(a)}) }), "MustBigDec:panics")
}

// ---------------------------------------------------------------- tolerance comparison

func c13Tolerance() (ErrTolerance, *big.Int, *big.Int, bool, bool) {
	add := c13Sym("tolAdd", 128, false)
	mul := c13Sym("tolMul", 128, false)
	hasAdd := vNondetBool("hasAdd")
	hasMul := vNondetBool("hasMul")
	dir := RoundingDirection(vChoose("dir", 4))
	t := ErrTolerance{RoundingDir: dir}
	if hasAdd {
		t.AdditiveTolerance = NewDecFromBigIntWithPrec(new(big.Int).Set(add), 18)
	}
	if hasMul {
		t.MultiplicativeTolerance = NewDecFromBigIntWithPrec(new(big.Int).Set(mul), 18)
	}
	return t, add, mul, hasAdd, hasMul
}

// CompareBigDec: a result of 0 means the rounding side is respected and both tolerances are met;
// a non-zero result carries the sign of expected-actual.
func VH_C13_CompareBigDec() {
	tol, add, mul, hasAdd, hasMul := c13Tolerance()
	x := c13Sym("expected", 512, true)
	y := c13Sym("actual", 512, true)
	vReach("reach")
	res := tol.CompareBigDec(BigDec{i: new(big.Int).Set(x)}, BigDec{i: new(big.Int).Set(y)})
	diff := new(big.Int).Abs(new(big.Int).Sub(x, y))
	if res == 0 {
		vAssert(tol.RoundingDir != RoundDown || x.Cmp(y) >= 0, "zero:round-down-side")
		vAssert(tol.RoundingDir != RoundUp || x.Cmp(y) <= 0, "zero:round-up-side")
		// additive tolerance is an 18-decimal value compared at 36 decimals
		vAssert(!hasAdd || diff.Cmp(new(big.Int).Mul(add, c13T)) <= 0, "zero:additive-met")
		if hasMul && mul.Sign() != 0 && diff.Sign() != 0 {
			mn := new(big.Int).Abs(x)
			if y.CmpAbs(x) < 0 {
				mn = new(big.Int).Abs(y)
			}
			// diff/min <= mul up to one 36-decimal unit (the quotient is truncated at 72 decimals, then rounded
			// half-even): diff*10^36 <= (mul*10^18 + 1) * min
			lhs := new(big.Int).Mul(diff, c13S)
			rhs := new(big.Int).Mul(new(big.Int).Add(new(big.Int).Mul(mul, c13T), big.NewInt(1)), mn)
			vAssert(mn.Sign() != 0, "zero:multiplicative-min-nonzero")
			vAssert(lhs.Cmp(rhs) <= 0, "zero:multiplicative-met")
		}
	} else {
		vAssert(res == 1 || res == -1, "nonzero:is-sign")
		vAssert(res != 1 || x.Cmp(y) > 0, "nonzero:+1-means-expected-greater")
		vAssert(res != -1 || x.Cmp(y) < 0, "nonzero:-1-means-expected-less")
	}
}

func VH_C13_CompareDec() {
	tol, add, _, hasAdd, _ := c13Tolerance()
	x := c13Sym("expected", 250, true)
	y := c13Sym("actual", 250, true)
	vReach("reach")
	res := tol.CompareDec(NewDecFromBigIntWithPrec(new(big.Int).Set(x), 18), NewDecFromBigIntWithPrec(new(big.Int).Set(y), 18))
	diff := new(big.Int).Abs(new(big.Int).Sub(x, y))
	if res == 0 {
		vAssert(tol.RoundingDir != RoundDown || x.Cmp(y) >= 0, "zero:round-down-side")
		vAssert(tol.RoundingDir != RoundUp || x.Cmp(y) <= 0, "zero:round-up-side")
		vAssert(!hasAdd || diff.Cmp(add) <= 0, "zero:additive-met")
	} else {
		vAssert(res != 1 || x.Cmp(y) > 0, "nonzero:+1-means-expected-greater")
		vAssert(res != -1 || x.Cmp(y) < 0, "nonzero:-1-means-expected-less")
	}
}

func VH_C13_CompareInt() {
	tol, add, _, hasAdd, _ := c13Tolerance()
	x := c13Sym("expected", 190, true)
	y := c13Sym("actual", 190, true)
	vReach("reach")
	res := tol.Compare(NewIntFromBigInt(new(big.Int).Set(x)), NewIntFromBigInt(new(big.Int).Set(y)))
	diff := new(big.Int).Abs(new(big.Int).Sub(x, y))
	if res == 0 {
		vAssert(tol.RoundingDir != RoundDown || x.Cmp(y) >= 0, "zero:round-down-side")
		vAssert(tol.RoundingDir != RoundUp || x.Cmp(y) <= 0, "zero:round-up-side")
		vAssert(!hasAdd || new(big.Int).Mul(diff, c13T).Cmp(add) <= 0, "zero:additive-met")
	} else {
		vAssert(res != 1 || x.Cmp(y) > 0, "nonzero:+1-means-expected-greater")
		vAssert(res != -1 || x.Cmp(y) <= 0, "nonzero:-1-means-expected-not-greater")
	}
}

// ---------------------------------------------------------------- binary searches

// The searched function is arbitrary (a fresh unconstrained value per call). With an exact tolerance
// (additive tolerance zero) and each rounding direction: a successful search returns the last evaluated input and
// that input's image compares as 0 to the target; a failed one used exactly maxIterations evaluations and its last
// image did not meet the tolerance; every estimate is the midpoint of the current interval, which only shrinks
// on the side the comparison indicates.
func VH_C13_BinarySearchBigDec() {
	lo, hi, target := c13Sym("lo", 256, false), c13Sym("hi", 256, false), c13Sym("target", 256, true)
	lim := new(big.Int).Lsh(big.NewInt(1), 256)
	vAssume(lo.Cmp(hi) <= 0)
	maxIter := vChoose("maxIter", 5)
	tol := ErrTolerance{AdditiveTolerance: ZeroDec(), RoundingDir: RoundingDirection(vChoose("dir", 3))}
	vConfig("unwind", 8)
	calls := 0
	var lastIn, lastOut *big.Int
	curLo, curHi := new(big.Int).Set(lo), new(big.Int).Set(hi)
	f := func(x BigDec) BigDec {
		// the verdict on the previous evaluation narrows the interval on the indicated side
		if calls > 0 {
			if tol.CompareBigDec(BigDec{i: new(big.Int).Set(target)}, BigDec{i: new(big.Int).Set(lastOut)}) < 0 {
				curHi = lastIn
			} else {
				curLo = lastIn
			}
		}
		calls++
		mid := new(big.Int).Rsh(new(big.Int).Add(curLo, curHi), 1)
		vAssert(x.i.Cmp(mid) == 0, "estimate-is-midpoint-of-current-interval")
		vAssert(x.i.Cmp(lo) >= 0 && x.i.Cmp(hi) <= 0, "estimate-within-bounds")
		out := vNondetBigRange(fmt.Sprintf("f_%d", calls), new(big.Int).Neg(lim), lim)
		lastIn, lastOut = new(big.Int).Set(x.i), out
		return BigDec{i: new(big.Int).Set(out)}
	}
	vReach("reach")
	est, err := BinarySearchBigDec(f, BigDec{i: new(big.Int).Set(lo)}, BigDec{i: new(big.Int).Set(hi)}, BigDec{i: new(big.Int).Set(target)}, tol, maxIter)
	vAssert(calls <= maxIter, "at-most-maxIterations-evaluations")
	if err == nil {
		vAssert(calls >= 1, "success:evaluated")
		vAssert(est.i.Cmp(lastIn) == 0, "success:returns-last-evaluated-input")
		vAssert(tol.CompareBigDec(BigDec{i: new(big.Int).Set(target)}, BigDec{i: new(big.Int).Set(lastOut)}) == 0, "success:image-meets-tolerance")
	} else {
		vAssert(calls == maxIter, "failure:only-after-maxIterations")
		vAssert(calls == 0 || tol.CompareBigDec(BigDec{i: new(big.Int).Set(target)}, BigDec{i: new(big.Int).Set(lastOut)}) != 0, "failure:last-image-missed-tolerance")
	}
}

func VH_C13_BinarySearchInt() {
	lo, hi, target := c13Sym("lo", 128, false), c13Sym("hi", 128, false), c13Sym("target", 128, true)
	lim := new(big.Int).Lsh(big.NewInt(1), 128)
	vAssume(lo.Cmp(hi) <= 0)
	maxIter := vChoose("maxIter", 5)
	tol := ErrTolerance{AdditiveTolerance: ZeroDec(), RoundingDir: RoundingDirection(vChoose("dir", 3))}
	vConfig("unwind", 8)
	calls := 0
	var lastIn, lastOut *big.Int
	ferr := vNondetBool("ferr")
	f := func(x Int) (Int, error) {
		calls++
		vAssert(x.BigIntMut().Cmp(lo) >= 0 && x.BigIntMut().Cmp(hi) <= 0, "estimate-within-bounds")
		out := vNondetBigRange(fmt.Sprintf("f_%d", calls), new(big.Int).Neg(lim), lim)
		lastIn, lastOut = new(big.Int).Set(x.BigIntMut()), out
		if ferr && calls == 2 {
			return Int{}, fmt.Errorf("f failed")
		}
		return NewIntFromBigInt(new(big.Int).Set(out)), nil
	}
	vReach("reach")
	est, err := BinarySearch(f, NewIntFromBigInt(new(big.Int).Set(lo)), NewIntFromBigInt(new(big.Int).Set(hi)), NewIntFromBigInt(new(big.Int).Set(target)), tol, maxIter)
	vAssert(calls <= maxIter, "at-most-maxIterations-evaluations")
	if err == nil {
		vAssert(calls >= 1, "success:evaluated")
		vAssert(est.BigIntMut().Cmp(lastIn) == 0, "success:returns-last-evaluated-input")
		vAssert(tol.Compare(NewIntFromBigInt(new(big.Int).Set(target)), NewIntFromBigInt(new(big.Int).Set(lastOut))) == 0, "success:image-meets-tolerance")
	} else {
		vAssert(calls == maxIter || (ferr && calls == 2), "failure:only-after-maxIterations-or-f-error")
		vAssert(calls == 0 || (ferr && calls == 2) || tol.Compare(NewIntFromBigInt(new(big.Int).Set(target)), NewIntFromBigInt(new(big.Int).Set(lastOut))) != 0, "failure:last-image-missed-tolerance")
	}
}

// ---------------------------------------------------------------- domains: loud failure outside

func VH_C13_Exp2Domain() {
	e := c13Sym("e", 400, true)
	max := new(big.Int).Mul(big.NewInt(512), c13S)
	vAssume(e.Sign() < 0 || e.Cmp(max) > 0)
	vReach("reach")
	vAssert(vPanics(func() { Exp2(BigDec{i: new(big.Int).Set(e)}) }), "Exp2:panics-outside-[0,2^9]")
	// exponents just above the maximum: integer part 512..515 (case split), symbolic fraction
	k := int64(512 + vChoose("near_int", 4))
	nf := vNondetBigRange("near_frac", big.NewInt(0), new(big.Int).Sub(c13S, big.NewInt(1)))
	near := new(big.Int).Add(new(big.Int).Mul(big.NewInt(k), c13S), nf)
	vAssume(near.Cmp(max) > 0)
	vConfig("unwind", 10)
	vConfig("lazy", 1)
	vAssert(vPanics(func() { Exp2(BigDec{i: new(big.Int).Set(near)}) }), "Exp2:panics-just-above-2^9")
	vConfig("lazy", 0)
	x := c13Sym("x", 400, true)
	vAssume(x.Sign() < 0 || x.Cmp(c13S) > 0)
	vAssert(vPanics(func() { exp2ChebyshevRationalApprox(BigDec{i: new(big.Int).Set(x)}) }), "approx:panics-outside-[0,1]")
}

// Exp2(k + f) == exp2ChebyshevRationalApprox(f) * 2^k exactly, for concrete integer parts and a symbolic fraction.
func VH_C13_Exp2Structure() {
	ks := []int64{0, 1, 2, 63, 64, 511}
	k := ks[vChoose("k", len(ks))]
	f := vNondetBigRange("f", new(big.Int), new(big.Int).Sub(c13S, big.NewInt(1)))
	e := new(big.Int).Add(new(big.Int).Mul(big.NewInt(k), c13S), f)
	vConfig("unwind", 10)
	vConfig("lazy", 1)
	vReach("reach")
	var got BigDec
	p := vPanics(func() { got = Exp2(BigDec{i: new(big.Int).Set(e)}) })
	vAssert(!p, "no-panic-inside-domain")
	if !p {
		frac := exp2ChebyshevRationalApprox(BigDec{i: new(big.Int).Set(f)})
		want := new(big.Int).Lsh(frac.i, uint(k))
		vAssert(got.i.Cmp(want) == 0, "integer-fraction-split")
	}
	// end points of the approximation
	vAssert(exp2ChebyshevRationalApprox(ZeroBigDec()).Equal(OneBigDec()), "approx(0)=1")
	vAssert(exp2ChebyshevRationalApprox(OneBigDec()).Equal(NewBigDec(2)), "approx(1)=2")
	top := Exp2(NewBigDec(512))
	vAssert(top.i.Cmp(new(big.Int).Lsh(c13S, 512)) == 0, "Exp2(512)=2^512")
}

var c13PowStubOut *big.Int

// contract stub: PowApprox as an arbitrary (but fixed) value; natively the real PowApprox runs on both sides.
func c13PowApproxStub(base Dec, exp Dec, precision Dec) Dec {
	return NewDecFromBigIntWithPrec(new(big.Int).Set(c13PowStubOut), 18)
}

// Pow: invalid bases fail loudly.
func VH_C13_PowDomain() {
	b := c13Sym("base", 200, true)
	two := new(big.Int).Mul(big.NewInt(2), c13T)
	vAssume(b.Sign() <= 0 || b.Cmp(two) >= 0)
	e := c13Sym("exp", 80, false)
	vReach("reach")
	vAssert(vPanics(func() {
		Pow(NewDecFromBigIntWithPrec(new(big.Int).Set(b), 18), NewDecFromBigIntWithPrec(new(big.Int).Set(e), 18))
	}), "panics-when-base-outside-(0,2)")
	vAssert(vPanics(func() {
		PowApprox(NewDecFromBigIntWithPrec(new(big.Int).Neg(new(big.Int).Abs(b)), 18), NewDecFromBigIntWithPrec(new(big.Int).Set(e), 18), GetPowPrecision())
	}), "PowApprox:panics-when-base-not-positive")
}

// Pow(base, n + frac) = base^n * PowApprox(base, frac) (PowApprox itself is cut out: its series accuracy is
// outside the claim), Pow(base, n) = base^n exactly as Dec.Power computes it; the base is left untouched.
func VH_C13_PowStructure() {
	two := new(big.Int).Mul(big.NewInt(2), c13T)
	b := vNondetBigRange("base", big.NewInt(1), new(big.Int).Sub(two, big.NewInt(1)))
	n := int64(vChoose("n", 4))
	fr := vNondetBigRange("frac", new(big.Int), new(big.Int).Sub(c13T, big.NewInt(1)))
	exp := new(big.Int).Add(new(big.Int).Mul(big.NewInt(n), c13T), fr)
	c13PowStubOut = vNondetBigRange("powapprox", new(big.Int), new(big.Int).Mul(big.NewInt(4), c13T))
	vOverride("github.com/osmosis-labs/osmosis/osmomath.PowApprox", c13PowApproxStub)
	vReach("reach")
	base := NewDecFromBigIntWithPrec(new(big.Int).Set(b), 18)
	var got Dec
	p := vPanics(func() { got = Pow(base, NewDecFromBigIntWithPrec(new(big.Int).Set(exp), 18)) })
	vAssert(!p, "no-panic-inside-domain")
	if !p {
		ip := NewDecFromBigIntWithPrec(new(big.Int).Set(b), 18).Power(uint64(n))
		if fr.Sign() == 0 {
			vAssert(got.BigIntMut().Cmp(ip.BigIntMut()) == 0, "integer-exponent:exact-power")
		} else {
			fp := PowApprox(NewDecFromBigIntWithPrec(new(big.Int).Set(b), 18), NewDecFromBigIntWithPrec(new(big.Int).Set(fr), 18), GetPowPrecision())
			want := ip.Mul(fp)
			vAssert(got.BigIntMut().Cmp(want.BigIntMut()) == 0, "integer-times-fractional")
		}
		vAssert(base.BigIntMut().Cmp(b) == 0, "base-untouched")
	}
	vOverride("github.com/osmosis-labs/osmosis/osmomath.PowApprox", nil)
}

// Pow on concrete (base, exponent) points that include the implementation's special constants (exponent fraction
// exactly one half, integer exponents), with the fractional approximation still an arbitrary symbolic value:
// the result must be base^n * PowApprox(base, frac) whatever PowApprox returns.
func VH_C13_PowPoints() {
	pts := [][2]string{{"1.5", "1.5"}, {"0.5", "2.5"}, {"1.000000000000000001", "3.5"}, {"1.999999999999999999", "0.5"}, {"0.7", "2"}, {"1.3", "1.25"}}
	c13PowStubOut = vNondetBigRange("powapprox", new(big.Int), new(big.Int).Mul(big.NewInt(4), c13T))
	vOverride("github.com/osmosis-labs/osmosis/osmomath.PowApprox", c13PowApproxStub)
	vConfig("unwind", 400)
	vReach("reach")
	for _, pt := range pts {
		base, exp := MustNewDecFromStr(pt[0]), MustNewDecFromStr(pt[1])
		got := Pow(base.Clone(), exp.Clone())
		n := exp.TruncateInt64()
		frac := exp.Sub(exp.TruncateDec())
		want := base.Power(uint64(n))
		if !frac.IsZero() {
			want = want.Mul(PowApprox(base.Clone(), frac, GetPowPrecision()))
		}
		vAssert(got.BigIntMut().Cmp(want.BigIntMut()) == 0, "point:"+pt[0]+"^"+pt[1])
	}
	vOverride("github.com/osmosis-labs/osmosis/osmomath.PowApprox", nil)
}

// logarithms: non-positive input fails loudly
func VH_C13_LogDomain() {
	x := vNondetBigRange("x", new(big.Int).Neg(new(big.Int).Lsh(big.NewInt(1), 400)), new(big.Int))
	vReach("reach")
	vAssert(vPanics(func() { BigDec{i: new(big.Int).Set(x)}.LogBase2() }), "LogBase2")
	vAssert(vPanics(func() { BigDec{i: new(big.Int).Set(x)}.Ln() }), "Ln")
	vAssert(vPanics(func() { BigDec{i: new(big.Int).Set(x)}.TickLog() }), "TickLog")
	vAssert(vPanics(func() { BigDec{i: new(big.Int).Set(x)}.CustomBaseLog(NewBigDec(10)) }), "CustomBaseLog")
}

// SigFigRound: for 0 < d the result differs from d by at most half a unit of the last kept digit.
func VH_C13_SigFigRound() {
	b := vNondetBigRange("d", big.NewInt(1), new(big.Int).Lsh(big.NewInt(1), 160))
	s := int64(vChoose("s", 3))*4 + 1 // 1, 5, 9 significant figures
	ten := new(big.Int).Exp(big.NewInt(10), big.NewInt(s), nil)
	vConfig("unwind", 24)
	d := NewDecFromBigIntWithPrec(new(big.Int).Set(b), 18)
	vReach("reach")
	r := SigFigRound(d, NewIntFromBigInt(new(big.Int).Set(ten)))
	// for d >= 0.1 the unit of the last kept digit is 10^-s; below, it scales with the leading zeros (k)
	if b.Cmp(new(big.Int).Exp(big.NewInt(10), big.NewInt(17), nil)) >= 0 {
		// |r - d| <= 1/2 * 10^-s  (+ one 18-decimal ulp for the final truncating division)
		diff := new(big.Int).Abs(new(big.Int).Sub(r.BigIntMut(), b))
		half := new(big.Int).Quo(new(big.Int).Exp(big.NewInt(10), big.NewInt(18-s), nil), big.NewInt(2))
		vAssert(diff.Cmp(new(big.Int).Add(half, big.NewInt(1))) <= 0, "ge-0.1:within-half-unit")
	} else {
		vAssert(r.BigIntMut().Sign() >= 0, "lt-0.1:non-negative")
		diff := new(big.Int).Abs(new(big.Int).Sub(r.BigIntMut(), b))
		// weaker, scale-free statement: relative movement at most 10^(1-s)/2 (+1 ulp)
		lhs := new(big.Int).Mul(diff, new(big.Int).Mul(big.NewInt(2), new(big.Int).Exp(big.NewInt(10), big.NewInt(s-1), nil)))
		vAssert(lhs.Cmp(new(big.Int).Add(b, new(big.Int).Mul(big.NewInt(2), new(big.Int).Exp(big.NewInt(10), big.NewInt(s-1), nil)))) <= 0, "lt-0.1:relative-half-unit")
	}
}
