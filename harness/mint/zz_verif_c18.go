package keeper

// C18 harnesses: one mint-epoch end from an arbitrary minter / parameter state with a model bank, account keeper
// and community pool. Parameters are kept in a harness variable (the x/params subspace is outside the engine's
// reach: reflection + amino JSON), everything else is the repository's code.

import (
	"context"
	"math/big"

	storetypes "cosmossdk.io/store/types"
	"github.com/cosmos/cosmos-sdk/codec"
	codectypes "github.com/cosmos/cosmos-sdk/codec/types"
	sdk "github.com/cosmos/cosmos-sdk/types"
	paramtypes "github.com/cosmos/cosmos-sdk/x/params/types"

	"github.com/osmosis-labs/osmosis/osmomath"
	"github.com/osmosis-labs/osmosis/v31/x/mint/types"
	poolincentivestypes "github.com/osmosis-labs/osmosis/v31/x/pool-incentives/types"
)

const c18Denom = "uosmo"

var c18T = new(big.Int).Exp(big.NewInt(10), big.NewInt(18), nil)

// ---- model bank: balances per named account, total supply and supply offset

type c18Bank struct {
	bal    map[string]*big.Int
	supply *big.Int
	offset *big.Int
	failOn string
}

func (b *c18Bank) get(acct string) *big.Int {
	if v, ok := b.bal[acct]; ok {
		return v
	}
	return new(big.Int)
}
func (b *c18Bank) move(from, to string, amt *big.Int) error {
	if b.get(from).Cmp(amt) < 0 {
		return errInsufficient
	}
	b.bal[from] = new(big.Int).Sub(b.get(from), amt)
	b.bal[to] = new(big.Int).Add(b.get(to), amt)
	return nil
}

type c18Err struct{}

func (c18Err) Error() string { return "insufficient funds" }

var errInsufficient error = c18Err{}

func c18AmountOf(c sdk.Coins) *big.Int { return c.AmountOf(c18Denom).BigIntMut() }

func (b *c18Bank) GetBalance(ctx context.Context, addr sdk.AccAddress, denom string) sdk.Coin {
	return sdk.NewCoin(denom, osmomath.NewIntFromBigInt(new(big.Int).Set(b.get(string(addr)))))
}
func (b *c18Bank) SendCoinsFromModuleToAccount(ctx context.Context, senderModule string, recipientAddr sdk.AccAddress, amt sdk.Coins) error {
	return b.move("module:"+senderModule, string(recipientAddr), c18AmountOf(amt))
}
func (b *c18Bank) SendCoinsFromModuleToModule(ctx context.Context, senderModule, recipientModule string, amt sdk.Coins) error {
	return b.move("module:"+senderModule, "module:"+recipientModule, c18AmountOf(amt))
}
func (b *c18Bank) MintCoins(ctx context.Context, name string, amt sdk.Coins) error {
	a := c18AmountOf(amt)
	b.bal["module:"+name] = new(big.Int).Add(b.get("module:"+name), a)
	b.supply = new(big.Int).Add(b.supply, a)
	return nil
}
func (b *c18Bank) BurnCoins(ctx context.Context, name string, amt sdk.Coins) error {
	a := c18AmountOf(amt)
	if b.get("module:"+name).Cmp(a) < 0 {
		return errInsufficient
	}
	b.bal["module:"+name] = new(big.Int).Sub(b.get("module:"+name), a)
	b.supply = new(big.Int).Sub(b.supply, a)
	return nil
}
func (b *c18Bank) AddSupplyOffset(ctx context.Context, denom string, offsetAmount osmomath.Int) {
	b.offset = new(big.Int).Add(b.offset, offsetAmount.BigIntMut())
}
func (b *c18Bank) GetSupplyWithOffset(ctx context.Context, denom string) sdk.Coin {
	return sdk.NewCoin(denom, osmomath.NewIntFromBigInt(new(big.Int).Add(b.supply, b.offset)))
}

type c18Accounts struct{}

func (c18Accounts) GetModuleAddress(name string) sdk.AccAddress               { return sdk.AccAddress("module:" + name) }
func (c18Accounts) HasAccount(ctx context.Context, addr sdk.AccAddress) bool  { return true }
func (c18Accounts) SetModuleAccount(context.Context, sdk.ModuleAccountI)      {}
func (c18Accounts) GetModuleAccount(ctx context.Context, moduleName string) sdk.ModuleAccountI {
	return nil
}
func (c18Accounts) NewAccount(ctx context.Context, acc sdk.AccountI) sdk.AccountI { return acc }

type c18Pool struct{ bank *c18Bank }

func (p c18Pool) FundCommunityPool(ctx context.Context, amount sdk.Coins, sender sdk.AccAddress) error {
	return p.bank.move(string(sender), "communitypool", c18AmountOf(amount))
}

type c18Hooks struct{ calls *int }

func (h c18Hooks) AfterDistributeMintedCoin(ctx sdk.Context) { *h.calls = *h.calls + 1 }

// ---- parameters live in a harness variable; GetParams / SetParams are cut at their interface

var c18Params types.Params

func c18GetParams(k Keeper, ctx sdk.Context) types.Params { return c18Params }

func c18AddrStub(address string) (sdk.AccAddress, error) { return sdk.AccAddress("acct:" + address), nil }

func c18Dec(x *big.Int) osmomath.Dec { return osmomath.NewDecFromBigIntWithPrec(new(big.Int).Set(x), 18) }

func c18Frac(name string) *big.Int { return vNondetBigRange(name, new(big.Int), c18T) }

const (
	c18Dev1 = "osmo1v3jhvun9vdjkjan9wgkk7mn995crqvp38ympak"
	c18Dev2 = "osmo1v3jhvun9vdjkjan9wgkhgam095crqvpj898a40"
)

type c18World struct {
	k         Keeper
	ctx       sdk.Context
	bank      *c18Bank
	hookCalls *int
	prov      *big.Int // epoch provisions (18-decimal raw)
	ps, pp, pd, pc *big.Int
	factor    *big.Int
	period, start, last, epoch int64
	w1        *big.Int
	receivers int
}

// c18Setup: arbitrary provisions, proportions summing to one, reduction factor in [0,1], period, start epoch,
// last reduction epoch, epoch number, developer receivers (0, 1 or 2; one possibly the empty address).
func c18Setup(receivers int) *c18World {
	w := &c18World{}
	key := storetypes.NewKVStoreKey(types.StoreKey)
	ms := vNewMS(types.StoreKey)
	w.ctx = vNewCtx(ms, vTimeFromNanos(1000), 10)
	w.bank = &c18Bank{bal: map[string]*big.Int{}, supply: new(big.Int), offset: new(big.Int)}
	calls := 0
	w.hookCalls = &calls
	w.k = Keeper{storeKey: key, accountKeeper: c18Accounts{}, bankKeeper: w.bank, communityPoolKeeper: c18Pool{w.bank}, hooks: c18Hooks{&calls}, feeCollectorName: "fee_collector"}
	vOverride("(github.com/osmosis-labs/osmosis/v31/x/mint/keeper.Keeper).GetParams", c18GetParams)
	// bech32 decoding is cut at its interface: an injective map from address strings to account bytes
	vOverride("github.com/cosmos/cosmos-sdk/types.AccAddressFromBech32", c18AddrStub)

	w.prov = vNondetBigRange("provisions", new(big.Int), new(big.Int).Lsh(big.NewInt(1), 150))
	w.ps, w.pp, w.pd = c18Frac("p_staking"), c18Frac("p_pool"), c18Frac("p_dev")
	w.pc = new(big.Int).Sub(new(big.Int).Sub(new(big.Int).Sub(c18T, w.ps), w.pp), w.pd)
	vAssume(w.pc.Sign() >= 0)
	w.factor = c18Frac("factor")
	w.period = vNondetRange("period", 1, 1<<30)
	w.start = vNondetRange("start_epoch", 0, 1<<30)
	w.last = vNondetRange("last_reduction", 0, 1<<30)
	w.epoch = vNondetRange("epoch", 0, 1<<31)
	w.receivers = receivers
	var rec []types.WeightedAddress
	// parameter validation requires strictly positive weights
	w.w1 = vNondetBigRange("w1", big.NewInt(1), new(big.Int).Sub(c18T, big.NewInt(1)))
	switch w.receivers {
	case 1:
		rec = []types.WeightedAddress{{Address: c18Dev1, Weight: c18Dec(c18T)}}
	case 2:
		addr2 := c18Dev2
		if vNondetBool("second_receiver_empty") {
			addr2 = ""
		}
		rec = []types.WeightedAddress{{Address: c18Dev1, Weight: c18Dec(w.w1)}, {Address: addr2, Weight: c18Dec(new(big.Int).Sub(c18T, w.w1))}}
	}
	c18Params = types.Params{
		MintDenom: c18Denom, GenesisEpochProvisions: c18Dec(w.prov), EpochIdentifier: "day",
		ReductionPeriodInEpochs: w.period, ReductionFactor: c18Dec(w.factor),
		DistributionProportions: types.DistributionProportions{Staking: c18Dec(w.ps), PoolIncentives: c18Dec(w.pp), DeveloperRewards: c18Dec(w.pd), CommunityPool: c18Dec(w.pc)},
		WeightedDeveloperRewardsReceivers:    rec,
		MintingRewardsDistributionStartEpoch: w.start,
	}
	if vNative() {
		// natively (replay) the real x/params subspace holds the parameters
		w.k.paramSpace = paramtypes.NewSubspace(codec.NewProtoCodec(codectypes.NewInterfaceRegistry()), codec.NewLegacyAmino(),
			storetypes.NewKVStoreKey("params"), storetypes.NewTransientStoreKey("transient_params"), "mint").WithKeyTable(types.ParamKeyTable())
		w.k.SetParams(w.ctx, c18Params)
	}
	w.k.SetMinter(w.ctx, types.Minter{EpochProvisions: c18Dec(w.prov)})
	w.k.setLastReductionEpochNum(w.ctx, w.last)
	// the developer vesting account holds an arbitrary (pre-minted, offset) balance
	vest := vNondetBigRange("vesting_balance", new(big.Int), new(big.Int).Lsh(big.NewInt(1), 150))
	w.bank.bal["module:"+types.DeveloperVestingModuleAcctName] = vest
	w.bank.supply = new(big.Int).Set(vest)
	w.bank.offset = new(big.Int).Neg(vest)
	return w
}

func c18Trunc(x *big.Int) *big.Int { return new(big.Int).Quo(x, c18T) }

// share of an integer amount: floor(amount * ratio)
func c18Share(amount, ratio *big.Int) *big.Int {
	// Dec.Mul rounds half-even at 18 decimals before TruncateInt; for an integer amount amount*ratio is exact at 18 decimals
	return new(big.Int).Quo(new(big.Int).Mul(amount, ratio), c18T)
}

// a different epoch identifier, or an epoch before the start epoch: nothing happens
func VH_C18_Inactive() {
	w := c18Setup(1)
	ident := "day"
	if vNondetBool("other_identifier") {
		ident = "week"
	}
	vAssume(ident != "day" || w.epoch < w.start)
	c18CheckEpochEnd(w, ident)
}

func VH_C18_AfterEpochEnd_no_receivers()  { c18Active(0) }
func VH_C18_AfterEpochEnd_one_receiver()  { c18Active(1) }
func VH_C18_AfterEpochEnd_two_receivers() { c18Active(2) }

func c18Active(receivers int) {
	w := c18Setup(receivers)
	vAssume(w.epoch >= w.start)
	c18CheckEpochEnd(w, "day")
}

// quick-tier variant of the two-receiver case: everything goes to developers, no reduction due; provisions and the
// weight split stay symbolic (the general two-receiver harness runs in the thorough tier)
func VH_C18_AfterEpochEnd_two_receivers_devonly() {
	w := c18Setup(2)
	vAssume(w.epoch > w.start && w.epoch < w.period+w.last)
	vAssume(w.ps.Sign() == 0 && w.pp.Sign() == 0 && w.pd.Cmp(c18T) == 0)
	c18CheckEpochEnd(w, "day")
}

func c18CheckEpochEnd(w *c18World, ident string) {
	vReach("reach")
	supply0 := new(big.Int).Add(w.bank.supply, w.bank.offset)
	vest0 := w.bank.get("module:" + types.DeveloperVestingModuleAcctName)
	err := w.k.AfterEpochEnd(w.ctx, ident, w.epoch)
	minter := w.k.GetMinter(w.ctx)
	provAfter := minter.EpochProvisions.BigIntMut()
	supply1 := new(big.Int).Add(w.bank.supply, w.bank.offset)

	if ident != "day" || w.epoch < w.start {
		vAssert(err == nil, "inactive:no-error")
		vAssert(provAfter.Cmp(w.prov) == 0, "inactive:provisions-unchanged")
		vAssert(supply1.Cmp(supply0) == 0 && w.bank.get("communitypool").Sign() == 0, "inactive:nothing-minted")
		vAssert(w.k.getLastReductionEpochNum(w.ctx) == w.last, "inactive:reduction-clock-untouched")
		return
	}
	// reduction: exactly when a full period has passed since the last reduction (the clock starts at the start epoch)
	last := w.last
	if w.epoch == w.start {
		last = w.epoch
	}
	due := w.epoch >= w.period+last
	wantProv := w.prov
	if due {
		// Dec.Mul: half-even at 18 decimals
		prod := new(big.Int).Mul(w.prov, w.factor)
		q, r := new(big.Int).QuoRem(prod, c18T, new(big.Int))
		twice := new(big.Int).Lsh(r, 1)
		if c := twice.Cmp(c18T); c > 0 || (c == 0 && q.Bit(0) == 1) {
			q.Add(q, big.NewInt(1))
		}
		wantProv = q
	}
	vAssert(provAfter.Cmp(wantProv) == 0, "provisions:reduced-iff-period-elapsed")
	if due {
		vAssert(w.k.getLastReductionEpochNum(w.ctx) == w.epoch, "reduction-clock:set-to-this-epoch")
	} else {
		vAssert(w.k.getLastReductionEpochNum(w.ctx) == last, "reduction-clock:unchanged")
	}
	minted := c18Trunc(wantProv)
	dev := c18Share(minted, w.pd)
	if vest0.Cmp(dev) < 0 {
		vAssert(err != nil, "insufficient-vesting-balance:error")
		return
	}
	vAssert(err == nil, "no-error")
	if err != nil {
		return
	}
	staking, pool := c18Share(minted, w.ps), c18Share(minted, w.pp)
	vAssert(w.bank.get("module:fee_collector").Cmp(staking) == 0, "staking-share")
	vAssert(w.bank.get("module:"+poolincentivestypes.ModuleName).Cmp(pool) == 0, "pool-incentives-share")
	vAssert(w.bank.get("module:"+types.ModuleName).Sign() == 0, "mint-account-empty-afterwards")
	// developer rewards leave the vesting account; whatever is not paid to a receiver goes to the community pool
	vestAfter := w.bank.get("module:" + types.DeveloperVestingModuleAcctName)
	vAssert(new(big.Int).Sub(vest0, vestAfter).Cmp(new(big.Int)) >= 0 && new(big.Int).Sub(vest0, vestAfter).Cmp(dev) <= 0, "vesting-account-pays-at-most-dev-share")
	a1, _ := sdk.AccAddressFromBech32(c18Dev1)
	a2, _ := sdk.AccAddressFromBech32(c18Dev2)
	paidDevs := new(big.Int).Add(w.bank.get(string(a1)), w.bank.get(string(a2)))
	community := w.bank.get("communitypool")
	remainder := new(big.Int).Sub(new(big.Int).Sub(new(big.Int).Sub(minted, staking), pool), dev)
	vAssert(remainder.Sign() >= 0, "community-remainder-non-negative")
	// every coin put into circulation is allocated: collector + pool incentives + developers + community pool
	total := new(big.Int).Add(new(big.Int).Add(staking, pool), new(big.Int).Add(paidDevs, community))
	vAssert(total.Cmp(new(big.Int).Sub(new(big.Int).Add(minted, new(big.Int).Sub(vest0, vestAfter)), dev)) == 0, "every-minted-coin-allocated")
	vAssert(community.Cmp(new(big.Int).Add(remainder, new(big.Int).Sub(new(big.Int).Sub(vest0, vestAfter), paidDevs))) == 0, "community-pool-gets-remainder-and-unaddressed-dev-share")
	// the reported supply grows by exactly what was put into circulation: the integer part of the provision, less
	// any part of the developer share that stayed in the (offset) vesting account
	undistributed := new(big.Int).Sub(dev, new(big.Int).Sub(vest0, vestAfter))
	vAssert(new(big.Int).Sub(supply1, supply0).Cmp(new(big.Int).Sub(minted, undistributed)) == 0, "reported-supply-grows-by-amount-put-into-circulation")
	vAssert(undistributed.Sign() == 0, "developer-share-fully-distributed")
	vAssert(*w.hookCalls == 1, "post-distribution-hook-once")
}

// Consecutive epochs: with the clock at `last`, the reduction fires at epoch last+period and at no epoch in between.
func VH_C18_ReductionSchedule() {
	w := c18Setup(0)
	vAssume(w.start <= w.last && w.epoch > w.last && w.epoch > w.start)
	vAssume(w.bank.get("module:"+types.DeveloperVestingModuleAcctName).Cmp(new(big.Int).Lsh(big.NewInt(1), 149)) >= 0)
	vReach("reach")
	err := w.k.AfterEpochEnd(w.ctx, "day", w.epoch)
	vAssert(err == nil, "no-error")
	reduced := w.k.getLastReductionEpochNum(w.ctx) == w.epoch
	vAssert(reduced == (w.epoch-w.last >= w.period), "fires-iff-period-elapsed")
	prov1 := w.k.GetMinter(w.ctx).EpochProvisions.BigIntMut()
	vAssert(reduced || prov1.Cmp(w.prov) == 0, "no-reduction:provisions-unchanged")
	// the next epoch right after a reduction never reduces again (period >= 1 means one full period must pass)
	if reduced && w.period > 1 {
		err2 := w.k.AfterEpochEnd(w.ctx, "day", w.epoch+1)
		vAssert(err2 == nil, "next:no-error")
		vAssert(w.k.GetMinter(w.ctx).EpochProvisions.BigIntMut().Cmp(prov1) == 0, "next-epoch:not-reduced-again")
		vAssert(w.k.getLastReductionEpochNum(w.ctx) == w.epoch, "next-epoch:clock-unchanged")
	}
}
