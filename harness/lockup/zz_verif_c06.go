package keeper

// C06 harnesses: short lock histories (two locks by two owners over two prefix-related denominations and
// two durations, then one further operation) with symbolic amounts, balances and unlock time, checked after the
// history against a shadow list of live locks kept by the harness: bank ledger vs. live locks, accumulation totals
// for every probe duration, every by-owner / by-denom / by-duration / by-time query, time-lock and conservation.

import (
	"context"
	"errors"
	"time"

	storetypes "cosmossdk.io/store/types"
	sdk "github.com/cosmos/cosmos-sdk/types"

	"github.com/osmosis-labs/osmosis/osmomath"
	"github.com/osmosis-labs/osmosis/v31/x/lockup/types"
)

const (
	c06DenomA = "gamm/pool/1"
	c06DenomB = "gamm/pool/10"
	c06Module = "module:lockup"
)

// ---------------------------------------------------------------- bank ledger model

type c06Ledger struct {
	addr  []string
	denom []string
	amt   []osmomath.Int
}

func (l *c06Ledger) get(addr, denom string) osmomath.Int {
	for i := range l.addr {
		if l.addr[i] == addr && l.denom[i] == denom {
			return l.amt[i]
		}
	}
	return osmomath.ZeroInt()
}

func (l *c06Ledger) set(addr, denom string, v osmomath.Int) {
	for i := range l.addr {
		if l.addr[i] == addr && l.denom[i] == denom {
			l.amt[i] = v
			return
		}
	}
	l.addr = append(l.addr, addr)
	l.denom = append(l.denom, denom)
	l.amt = append(l.amt, v)
}

func (l *c06Ledger) move(from, to string, coins sdk.Coins) error {
	for _, c := range coins {
		if l.get(from, c.Denom).LT(c.Amount) {
			return errors.New("insufficient funds")
		}
	}
	for _, c := range coins {
		l.set(from, c.Denom, l.get(from, c.Denom).Sub(c.Amount))
		l.set(to, c.Denom, l.get(to, c.Denom).Add(c.Amount))
	}
	return nil
}

type c06Bank struct{ l *c06Ledger }

func (b c06Bank) GetAllBalances(ctx context.Context, addr sdk.AccAddress) sdk.Coins {
	return sdk.Coins{}
}
func (b c06Bank) SendCoinsFromModuleToAccount(ctx context.Context, senderModule string, recipientAddr sdk.AccAddress, amt sdk.Coins) error {
	return b.l.move("module:"+senderModule, string(recipientAddr), amt)
}
func (b c06Bank) SendCoinsFromAccountToModule(ctx context.Context, senderAddr sdk.AccAddress, recipientModule string, amt sdk.Coins) error {
	return b.l.move(string(senderAddr), "module:"+recipientModule, amt)
}
func (b c06Bank) BurnCoins(ctx context.Context, name string, amt sdk.Coins) error {
	return b.l.move("module:"+name, "burned", amt)
}

// ---------------------------------------------------------------- shadow model of live locks

type c06Lock struct {
	id        uint64
	owner     int
	denom     string
	amt       osmomath.Int
	dur       time.Duration
	unlocking bool
	end       time.Time
}

type c06World struct {
	k      *Keeper
	ms     *vMS
	ctx    sdk.Context
	led    *c06Ledger
	owners []sdk.AccAddress
	init   []osmomath.Int // initial balance per (owner, denom): index owner*2 + denomIdx
	locks  []c06Lock
}

var c06T0 = int64(1700000000) * 1000000000

func c06AddrStub(address string) (sdk.AccAddress, error) { return sdk.AccAddress(address), nil }
func c06AddrString(aa sdk.AccAddress) string             { return string(aa) }

func c06Denoms() []string { return []string{c06DenomA, c06DenomB} }

func c06Setup() *c06World {
	if vNative() {
		sdk.GetConfig().SetBech32PrefixForAccount("osmo", "osmopub")
	}
	vOverride("github.com/cosmos/cosmos-sdk/types.AccAddressFromBech32", c06AddrStub)
	vOverride("(github.com/cosmos/cosmos-sdk/types.AccAddress).String", c06AddrString)
	w := &c06World{led: &c06Ledger{}}
	key := storetypes.NewKVStoreKey(types.StoreKey)
	w.ms = vNewMS(types.StoreKey)
	w.ctx = vNewCtx(w.ms, vTimeFromNanos(c06T0), 10)
	w.k = &Keeper{storeKey: key, bk: c06Bank{w.led}, hooks: types.NewMultiLockupHooks()}
	for i := 0; i < 2; i++ {
		a, err := sdk.AccAddressFromBech32(vAddrTable[i])
		if err != nil {
			vAssume(false)
		}
		w.owners = append(w.owners, a)
	}
	names := []string{"balA1", "balA10", "balB1", "balB10"}
	for o := 0; o < 2; o++ {
		for d, dn := range c06Denoms() {
			b := osmomath.NewIntFromBigInt(vNondetBigRange(names[o*2+d], osmomath.NewInt(0).BigInt(), osmomath.NewInt(1000000000000).BigInt()))
			w.init = append(w.init, b)
			w.led.set(string(w.owners[o]), dn, b)
		}
	}
	return w
}

func c06Amt(name string) osmomath.Int {
	return osmomath.NewIntFromBigInt(vNondetBigRange(name, osmomath.NewInt(1).BigInt(), osmomath.NewInt(1000000000000).BigInt()))
}

func (w *c06World) find(id uint64) int {
	for i := range w.locks {
		if w.locks[i].id == id {
			return i
		}
	}
	return -1
}

// create performs CreateLock and mirrors it; returns false when the bank refuses (insufficient balance)
func (w *c06World) create(owner int, denom string, amt osmomath.Int, dur time.Duration) bool {
	lock, err := w.k.CreateLock(w.ctx, w.owners[owner], sdk.Coins{sdk.NewCoin(denom, amt)}, dur)
	if err != nil {
		return false
	}
	w.locks = append(w.locks, c06Lock{id: lock.ID, owner: owner, denom: denom, amt: amt, dur: dur})
	return true
}

var c06Probes = []time.Duration{0, time.Hour, time.Hour + 1, 2 * time.Hour, 2*time.Hour + 1, 3 * time.Hour, 3*time.Hour + 1}

func c06Mask(locks []types.PeriodLock) (m uint64, dup bool) {
	for _, l := range locks {
		b := uint64(1) << (l.ID & 63)
		if m&b != 0 {
			dup = true
		}
		m |= b
	}
	return
}

// check compares the module's state and every query with the shadow list
func (w *c06World) check(tag string) {
	k, ctx := w.k, w.ctx
	// primary records
	for _, l := range w.locks {
		got, err := k.GetLockByID(ctx, l.id)
		vAssert(err == nil, tag+":lock-record-present")
		if err != nil {
			return
		}
		vAssert(got.Owner == vAddrTable[l.owner] && got.Duration == l.dur && len(got.Coins) == 1 && got.Coins[0].Denom == l.denom && got.Coins[0].Amount.Equal(l.amt), tag+":lock-record-matches")
		vAssert(got.IsUnlocking() == l.unlocking && (!l.unlocking || got.EndTime.Equal(l.end)), tag+":lock-endtime-matches")
	}
	all, err := k.GetPeriodLocks(ctx)
	vAssert(err == nil && len(all) == len(w.locks), tag+":no-other-lock-records")
	// ledger: module holds exactly the live locks' coins; owner balance + locked is conserved
	for d, dn := range c06Denoms() {
		sum := osmomath.ZeroInt()
		for _, l := range w.locks {
			if l.denom == dn {
				sum = sum.Add(l.amt)
			}
		}
		vAssert(w.led.get(c06Module, dn).Equal(sum), tag+":module-balance-equals-live-locks")
		for o := 0; o < 2; o++ {
			locked := osmomath.ZeroInt()
			for _, l := range w.locks {
				if l.denom == dn && l.owner == o {
					locked = locked.Add(l.amt)
				}
			}
			vAssert(w.led.get(string(w.owners[o]), dn).Add(locked).Equal(w.init[o*2+d]), tag+":owner-balance-plus-locked-conserved")
		}
	}
	mod := k.GetModuleLockedCoins(ctx)
	for _, dn := range c06Denoms() {
		vAssert(mod.AmountOf(dn).Equal(w.led.get(c06Module, dn)), tag+":module-locked-coins-query")
	}
	// accumulation totals and duration / denom queries
	for _, dn := range c06Denoms() {
		for _, d := range c06Probes {
			exp := osmomath.ZeroInt()
			var mask uint64
			for _, l := range w.locks {
				if l.denom == dn && l.dur >= d {
					exp = exp.Add(l.amt)
					mask |= 1 << l.id
				}
			}
			acc := k.GetPeriodLocksAccumulation(ctx, types.QueryCondition{LockQueryType: types.ByDuration, Denom: dn, Duration: d})
			vAssert(acc.Equal(exp), tag+":accumulation-equals-sum-of-live-locks")
			gm, dup := c06Mask(k.GetLocksLongerThanDurationDenom(ctx, dn, d))
			vAssert(!dup && gm == mask, tag+":locks-longer-than-duration-denom")
			for o := 0; o < 2; o++ {
				var em, emNU uint64
				for _, l := range w.locks {
					if l.denom == dn && l.dur >= d && l.owner == o {
						em |= 1 << l.id
						if !l.unlocking {
							emNU |= 1 << l.id
						}
					}
				}
				am, dup := c06Mask(k.GetAccountLockedLongerDurationDenom(ctx, w.owners[o], dn, d))
				vAssert(!dup && am == em, tag+":account-locked-longer-duration-denom")
				an, dup2 := c06Mask(k.GetAccountLockedLongerDurationDenomNotUnlockingOnly(ctx, w.owners[o], dn, d))
				vAssert(!dup2 && an == emNU, tag+":account-locked-longer-duration-denom-not-unlocking")
			}
		}
		var dm uint64
		for _, l := range w.locks {
			if l.denom == dn {
				dm |= 1 << l.id
			}
		}
		gm, dup := c06Mask(k.GetLocksDenom(ctx, dn))
		vAssert(!dup && gm == dm, tag+":locks-by-denom")
	}
	// by-owner and by-owner-and-duration queries
	for o := 0; o < 2; o++ {
		var em uint64
		for _, l := range w.locks {
			if l.owner == o {
				em |= 1 << l.id
			}
		}
		gm, dup := c06Mask(k.GetAccountPeriodLocks(ctx, w.owners[o]))
		vAssert(!dup && gm == em, tag+":account-period-locks")
		for _, d := range c06Probes {
			var ed, eq uint64
			for _, l := range w.locks {
				if l.owner == o && l.dur >= d {
					ed |= 1 << l.id
				}
				if l.owner == o && l.dur == d {
					eq |= 1 << l.id
				}
			}
			g1, dup1 := c06Mask(k.GetAccountLockedLongerDuration(ctx, w.owners[o], d))
			vAssert(!dup1 && g1 == ed, tag+":account-locked-longer-duration")
			g2, dup2 := c06Mask(k.GetAccountLockedDuration(ctx, w.owners[o], d))
			vAssert(!dup2 && g2 == eq, tag+":account-locked-duration")
		}
		// by-time (store.go): a lock counts as locked past ts when it is unlocking with end time after ts, or not
		// unlocking and would end at or after ts if unlocking began now; unlocked-before-ts is the complement
		now := ctx.BlockTime()
		for _, ts := range []time.Time{vTimeFromNanos(c06T0), vTimeFromNanos(c06T0 + int64(time.Hour)), vTimeFromNanos(c06T0 + int64(90*time.Minute)), vTimeFromNanos(c06T0 + int64(2*time.Hour)), vTimeFromNanos(c06T0 + int64(4*time.Hour))} {
			var ep, eb uint64
			for _, l := range w.locks {
				if l.owner != o {
					continue
				}
				past := (l.unlocking && l.end.After(ts)) || (!l.unlocking && !now.Add(l.dur).Before(ts))
				if past {
					ep |= 1 << l.id
				} else {
					eb |= 1 << l.id
				}
			}
			g1, dup1 := c06Mask(k.GetAccountLockedPastTime(ctx, w.owners[o], ts))
			vAssert(!dup1 && g1 == ep, tag+":account-locked-past-time")
			g2, dup2 := c06Mask(k.GetAccountUnlockedBeforeTime(ctx, w.owners[o], ts))
			vAssert(!dup2 && g2 == eb, tag+":account-unlocked-before-time")
		}
	}
}

// two locks: lock 1 by owner 0 in denom A; lock 2 by an arbitrary owner, denom and duration
func (w *c06World) twoLocks() {
	durs := []time.Duration{time.Hour, 2 * time.Hour}
	d1 := durs[vChoose("dur1", 2)]
	if !w.create(0, c06DenomA, c06Amt("a1"), d1) {
		vAssume(false)
	}
	o2 := vChoose("owner2", 2)
	dn2 := c06Denoms()[vChoose("denom2", 2)]
	d2 := durs[vChoose("dur2", 2)]
	if !w.create(o2, dn2, c06Amt("a2"), d2) {
		vAssume(false)
	}
}

func VH_C06_create() {
	w := c06Setup()
	w.twoLocks()
	vReach("reach")
	w.check("create")
	// a lock the owner cannot fund is refused and changes nothing
	big := w.led.get(string(w.owners[1]), c06DenomB).Add(osmomath.OneInt())
	_, err := w.k.CreateLock(w.ctx, w.owners[1], sdk.Coins{sdk.NewCoin(c06DenomB, big)}, time.Hour)
	vAssert(err != nil, "create:unfunded-lock-refused")
	w.check("create-refused")
}

func VH_C06_add_tokens() {
	w := c06Setup()
	w.twoLocks()
	a3 := c06Amt("a3")
	funded := w.led.get(string(w.owners[0]), c06DenomA).GTE(a3)
	_, err := w.k.AddTokensToLockByID(w.ctx, 1, w.owners[0], sdk.NewCoin(c06DenomA, a3))
	vAssert((err == nil) == funded, "add:succeeds-iff-funded")
	if err != nil {
		return
	}
	w.locks[0].amt = w.locks[0].amt.Add(a3)
	vReach("reach")
	w.check("add")
}

func VH_C06_extend() {
	w := c06Setup()
	w.twoLocks()
	nd := []time.Duration{2 * time.Hour, 3 * time.Hour}[vChoose("newdur", 2)]
	err := w.k.ExtendLockup(w.ctx, 1, w.owners[0], nd)
	vAssert((err == nil) == (nd > w.locks[0].dur), "extend:succeeds-iff-longer")
	if err != nil {
		return
	}
	w.locks[0].dur = nd
	vReach("reach")
	w.check("extend")
}

func VH_C06_begin_unlock_full() {
	w := c06Setup()
	w.twoLocks()
	id, err := w.k.BeginUnlock(w.ctx, 1, nil)
	vAssert(err == nil && id == 1, "begin-unlock:ok")
	if err != nil {
		return
	}
	w.locks[0].unlocking = true
	w.locks[0].end = vTimeFromNanos(c06T0 + int64(w.locks[0].dur))
	vReach("reach")
	w.check("begin-unlock")
	// a second begin-unlock and an extension of an unlocking lock are refused
	_, err2 := w.k.BeginUnlock(w.ctx, 1, nil)
	vAssert(err2 != nil, "begin-unlock:twice-refused")
}

func VH_C06_begin_unlock_partial() {
	w := c06Setup()
	w.twoLocks()
	p := c06Amt("p")
	vAssume(p.LT(w.locks[0].amt))
	id, err := w.k.BeginUnlock(w.ctx, 1, sdk.Coins{sdk.NewCoin(c06DenomA, p)})
	vAssert(err == nil && id == 3, "partial:split-lock-created")
	if err != nil {
		return
	}
	w.locks[0].amt = w.locks[0].amt.Sub(p)
	w.locks = append(w.locks, c06Lock{id: 3, owner: 0, denom: c06DenomA, amt: p, dur: w.locks[0].dur, unlocking: true, end: vTimeFromNanos(c06T0 + int64(w.locks[0].dur))})
	vReach("reach")
	w.check("partial")
	// more than the lock holds is refused
	_, err2 := w.k.BeginUnlock(w.ctx, 1, sdk.Coins{sdk.NewCoin(c06DenomA, w.locks[0].amt.Add(osmomath.OneInt()))})
	vAssert(err2 != nil, "partial:exceeding-refused")
}

// the time lock: after begin-unlock at T0 the coins come back at block time t iff t >= T0 + duration, to the owner only
func VH_C06_unlock_time() {
	w := c06Setup()
	w.twoLocks()
	partial := vChoose("partial", 2) == 1
	target := uint64(1)
	if partial {
		p := c06Amt("p")
		vAssume(p.LT(w.locks[0].amt))
		id, err := w.k.BeginUnlock(w.ctx, 1, sdk.Coins{sdk.NewCoin(c06DenomA, p)})
		if err != nil {
			vAssume(false)
		}
		target = id
		w.locks[0].amt = w.locks[0].amt.Sub(p)
		w.locks = append(w.locks, c06Lock{id: id, owner: 0, denom: c06DenomA, amt: p, dur: w.locks[0].dur, unlocking: true, end: vTimeFromNanos(c06T0 + int64(w.locks[0].dur))})
	} else {
		if _, err := w.k.BeginUnlock(w.ctx, 1, nil); err != nil {
			vAssume(false)
		}
		w.locks[0].unlocking = true
		w.locks[0].end = vTimeFromNanos(c06T0 + int64(w.locks[0].dur))
	}
	// a lock that has not begun unlocking cannot be withdrawn at any time
	t := vNondetRange("t", c06T0, c06T0+int64(10*time.Hour))
	w.ctx = w.ctx.WithBlockTime(vTimeFromNanos(t))
	err0 := w.k.UnlockMaturedLock(w.ctx, 2)
	vAssert(err0 != nil, "unlock:not-unlocking-lock-refused")
	i := w.find(target)
	end := c06T0 + int64(w.locks[i].dur)
	other := w.led.get(string(w.owners[1]), c06DenomA)
	err := w.k.UnlockMaturedLock(w.ctx, target)
	vAssert((err == nil) == (t >= end), "unlock:succeeds-iff-matured")
	// the views are evaluated at the concrete instant T0 (their answers depend on the block time only through the
	// by-time queries, which the other harnesses exercise at T0 as well)
	w.ctx = w.ctx.WithBlockTime(vTimeFromNanos(c06T0))
	if err != nil {
		vReach("reach-early")
		w.check("unlock-refused")
		return
	}
	w.locks = append(w.locks[:i], w.locks[i+1:]...)
	vReach("reach")
	vAssert(w.led.get(string(w.owners[1]), c06DenomA).Equal(other), "unlock:other-owner-not-credited")
	w.check("unlock")
	_, gone := w.k.GetLockByID(w.ctx, target)
	vAssert(gone != nil, "unlock:lock-record-deleted")
}

// the message path: LockTokens merges into an existing not-unlocking lock of the same owner, denom and duration and
// creates a new lock otherwise (other owner, other denom, other duration, or the existing lock already unlocking)
func VH_C06_lock_tokens_message() {
	w := c06Setup()
	w.twoLocks()
	srv := NewMsgServerImpl(w.k)
	if vChoose("first_unlocking", 2) == 1 {
		if _, err := w.k.BeginUnlock(w.ctx, 1, nil); err != nil {
			vAssume(false)
		}
		w.locks[0].unlocking = true
		w.locks[0].end = vTimeFromNanos(c06T0 + int64(w.locks[0].dur))
	}
	a3 := c06Amt("a3")
	dur := []time.Duration{time.Hour, 2 * time.Hour}[vChoose("dur3", 2)]
	funded := w.led.get(string(w.owners[0]), c06DenomA).GTE(a3)
	resp, err := srv.LockTokens(w.ctx, &types.MsgLockTokens{Owner: vAddrTable[0], Duration: dur, Coins: sdk.Coins{sdk.NewCoin(c06DenomA, a3)}})
	vAssert((err == nil) == funded, "lock-tokens:succeeds-iff-funded")
	if err != nil {
		return
	}
	// which existing lock (if any) takes the tokens
	target := -1
	for i, l := range w.locks {
		if l.owner == 0 && l.denom == c06DenomA && l.dur == dur && !l.unlocking && target < 0 {
			target = i
		}
	}
	if target >= 0 {
		vAssert(resp.ID == w.locks[target].id, "lock-tokens:added-to-the-matching-lock")
		w.locks[target].amt = w.locks[target].amt.Add(a3)
	} else {
		vAssert(resp.ID == 3, "lock-tokens:new-lock-created")
		w.locks = append(w.locks, c06Lock{id: 3, owner: 0, denom: c06DenomA, amt: a3, dur: dur})
	}
	vReach("reach")
	w.check("lock-tokens")
}

// force unlock (the superfluid / governance path): coins go back to the owner at once, whatever the lock's state
func VH_C06_force_unlock() {
	w := c06Setup()
	w.twoLocks()
	if vChoose("first_unlocking", 2) == 1 {
		if _, err := w.k.BeginUnlock(w.ctx, 1, nil); err != nil {
			vAssume(false)
		}
		w.locks[0].unlocking = true
		w.locks[0].end = vTimeFromNanos(c06T0 + int64(w.locks[0].dur))
	}
	partial := vChoose("partial", 2) == 1
	lock, err := w.k.GetLockByID(w.ctx, 1)
	if err != nil {
		vAssume(false)
	}
	if partial {
		p := c06Amt("p")
		vAssume(p.LT(w.locks[0].amt))
		err := w.k.PartialForceUnlock(w.ctx, *lock, sdk.Coins{sdk.NewCoin(c06DenomA, p)})
		vAssert(err == nil, "force-unlock:partial-succeeds")
		if err != nil {
			return
		}
		w.locks[0].amt = w.locks[0].amt.Sub(p)
	} else {
		err := w.k.ForceUnlock(w.ctx, *lock)
		vAssert(err == nil, "force-unlock:succeeds")
		if err != nil {
			return
		}
		w.locks = w.locks[1:]
	}
	vReach("reach")
	w.check("force-unlock")
}
