package keeper

// C11 harness (lockup side): the staking / unstaking markers of a superfluid-delegated lock are synthetic lockups. A lock
// carrying one cannot begin unlocking, carries at most one at a time, is counted in the marker denomination's
// accumulation, and the unstaking marker lasts exactly the unbonding period.

import (
	"time"

	sdk "github.com/cosmos/cosmos-sdk/types"

	"github.com/osmosis-labs/osmosis/osmomath"
	"github.com/osmosis-labs/osmosis/v31/x/lockup/types"
)

func VH_C11_lock_stays_bonded_while_delegated() {
	w := c06Setup()
	amt := c06Amt("a1")
	if !w.create(0, c06DenomA, amt, 2*time.Hour) {
		vAssume(false)
	}
	staking := c06DenomA + "/superbonding/osmovaloper1xyz"
	unstaking := c06DenomA + "/superunbonding/osmovaloper1xyz"
	unbonding := time.Hour
	acc := func(denom string) osmomath.Int {
		return w.k.GetPeriodLocksAccumulation(w.ctx, types.QueryCondition{LockQueryType: types.ByDuration, Denom: denom, Duration: unbonding})
	}
	vAssert(w.k.CreateSyntheticLockup(w.ctx, 1, staking, unbonding, false) == nil, "delegate:staking-marker-created")
	vAssert(w.k.CreateSyntheticLockup(w.ctx, 1, staking, unbonding, false) != nil, "delegate:exactly-one-staking-marker")
	vAssert(w.k.CreateSyntheticLockup(w.ctx, 1, unstaking, unbonding, true) != nil, "delegate:no-second-marker-of-another-kind")
	vAssert(acc(staking).Equal(amt) && acc(unstaking).IsZero(), "delegate:marker-accumulation-counts-the-lock")
	_, e1 := w.k.BeginUnlock(w.ctx, 1, nil)
	vAssert(e1 != nil, "delegate:cannot-begin-unlocking-while-delegated")
	_, e2 := NewMsgServerImpl(w.k).BeginUnlocking(w.ctx, &types.MsgBeginUnlocking{Owner: vAddrTable[0], ID: 1})
	vAssert(e2 != nil, "delegate:begin-unlocking-message-refused-while-delegated")
	w.check("delegated")
	// undelegation at T0: the staking marker is replaced by an unstaking marker ending after the unbonding period
	vAssert(w.k.DeleteSyntheticLockup(w.ctx, 1, staking) == nil, "undelegate:staking-marker-removed")
	vAssert(w.k.CreateSyntheticLockup(w.ctx, 1, unstaking, unbonding, true) == nil, "undelegate:unstaking-marker-created")
	vAssert(acc(staking).IsZero() && acc(unstaking).Equal(amt), "undelegate:marker-accumulation-moves")
	sl, err := w.k.GetSyntheticLockup(w.ctx, 1, unstaking)
	vAssert(err == nil && sl.EndTime.Equal(vTimeFromNanos(c06T0+int64(unbonding))), "undelegate:marker-ends-after-the-unbonding-period")
	offs := []int64{int64(30 * time.Minute), int64(unbonding) - 1, int64(unbonding), int64(2 * time.Hour)}
	off := offs[vChoose("later", 4)]
	w.ctx = w.ctx.WithBlockTime(vTimeFromNanos(c06T0 + off))
	w.k.DeleteAllMaturedSyntheticLocks(w.ctx)
	vReach("reach")
	matured := off >= int64(unbonding)
	vAssert(w.k.HasAnySyntheticLockups(w.ctx, 1) == !matured, "unbonding:marker-lasts-exactly-the-unbonding-period")
	_, e3 := w.k.BeginUnlock(w.ctx, 1, nil)
	vAssert((e3 == nil) == matured, "unbonding:lock-can-begin-unlocking-only-after-the-marker-matured")
	if matured {
		vAssert(acc(unstaking).IsZero(), "unbonding:matured-marker-leaves-the-accumulation")
	}
	_ = sdk.Coins{}
}
