package keeper

// C20 harnesses (lockup): a sender that is not the lock's owner cannot begin unlocking, extend, redirect rewards of,
// or force-unlock the lock; the stored lock and all balances stay untouched.

import (
	"context"
	"time"

	storetypes "cosmossdk.io/store/types"
	sdk "github.com/cosmos/cosmos-sdk/types"

	"github.com/osmosis-labs/osmosis/osmomath"
	"github.com/osmosis-labs/osmosis/v31/x/lockup/types"
)

type c20LBank struct{ calls *[]string }

func (b c20LBank) GetAllBalances(ctx context.Context, addr sdk.AccAddress) sdk.Coins {
	return sdk.Coins{}
}
func (b c20LBank) SendCoinsFromModuleToAccount(ctx context.Context, senderModule string, recipientAddr sdk.AccAddress, amt sdk.Coins) error {
	*b.calls = append(*b.calls, "SendCoinsFromModuleToAccount")
	return nil
}
func (b c20LBank) SendCoinsFromAccountToModule(ctx context.Context, senderAddr sdk.AccAddress, recipientModule string, amt sdk.Coins) error {
	*b.calls = append(*b.calls, "SendCoinsFromAccountToModule")
	return nil
}
func (b c20LBank) BurnCoins(ctx context.Context, name string, amt sdk.Coins) error {
	*b.calls = append(*b.calls, "BurnCoins")
	return nil
}

// bech32 is cut at its interface: decoding keeps the address string's bytes, encoding gives the string back
func c20LAddrStub(address string) (sdk.AccAddress, error) { return sdk.AccAddress(address), nil }
func c20LAddrString(aa sdk.AccAddress) string             { return string(aa) }

func c20LSetup() (*Keeper, sdk.Context, types.MsgServer, *[]string, types.PeriodLock) {
	if vNative() {
		sdk.GetConfig().SetBech32PrefixForAccount("osmo", "osmopub")
	}
	vOverride("github.com/cosmos/cosmos-sdk/types.AccAddressFromBech32", c20LAddrStub)
	vOverride("(github.com/cosmos/cosmos-sdk/types.AccAddress).String", c20LAddrString)
	key := storetypes.NewKVStoreKey(types.StoreKey)
	ms := vNewMS(types.StoreKey)
	ctx := vNewCtx(ms, vTimeFromNanos(int64(1700000000)*1000000000), 10)
	calls := []string{}
	k := &Keeper{storeKey: key, bk: c20LBank{&calls}}
	lock := types.PeriodLock{
		ID: 1, Owner: vNondetAddr("owner"), Duration: time.Hour,
		Coins: sdk.Coins{sdk.NewCoin("stake", osmomath.NewInt(100))},
	}
	if err := k.setLock(ctx, lock); err != nil {
		vAssume(false)
	}
	return k, ctx, NewMsgServerImpl(k), &calls, lock
}

func c20LUnchanged(k *Keeper, ctx sdk.Context, calls *[]string, lock types.PeriodLock, tag string) {
	got, err := k.GetLockByID(ctx, 1)
	vAssert(err == nil, tag+":lock-still-there")
	if err == nil {
		vAssert(got.Owner == lock.Owner && got.Duration == lock.Duration && got.EndTime.Equal(lock.EndTime) && got.RewardReceiverAddress == lock.RewardReceiverAddress && got.Coins.Equal(lock.Coins), tag+":lock-unchanged")
	}
	vAssert(len(*calls) == 0, tag+":no-bank-mutation")
}

func VH_C20_lockup_non_owner_rejected() {
	k, ctx, srv, calls, lock := c20LSetup()
	sender := vNondetAddr("sender")
	vAssume(sender != lock.Owner)
	vReach("reach")
	_, e1 := srv.BeginUnlocking(ctx, &types.MsgBeginUnlocking{Owner: sender, ID: 1})
	vAssert(e1 != nil, "BeginUnlocking:rejected")
	c20LUnchanged(k, ctx, calls, lock, "BeginUnlocking")
	_, e2 := srv.ExtendLockup(ctx, &types.MsgExtendLockup{Owner: sender, ID: 1, Duration: 2 * time.Hour})
	vAssert(e2 != nil, "ExtendLockup:rejected")
	c20LUnchanged(k, ctx, calls, lock, "ExtendLockup")
	_, e3 := srv.SetRewardReceiverAddress(ctx, &types.MsgSetRewardReceiverAddress{Owner: sender, LockID: 1, RewardReceiver: sender})
	vAssert(e3 != nil, "SetRewardReceiverAddress:rejected")
	c20LUnchanged(k, ctx, calls, lock, "SetRewardReceiverAddress")
	_, e4 := srv.ForceUnlock(ctx, &types.MsgForceUnlock{Owner: sender, ID: 1})
	vAssert(e4 != nil, "ForceUnlock:rejected")
	c20LUnchanged(k, ctx, calls, lock, "ForceUnlock")
}
