package twap

// C10 harnesses: accumulator updates, interpolation and the arithmetic TWAP over two price segments with symbolic
// nanosecond times and prices; error flag; geometric strategy structure is outside (Exp2/LogBase2 accuracy).

import (
	"math/big"
	"time"

	"github.com/osmosis-labs/osmosis/osmomath"
	"github.com/osmosis-labs/osmosis/v31/x/twap/types"
)

const c10Year = int64(365 * 24 * 3600 * 1000000000)

func c10Dec(x *big.Int) osmomath.Dec { return osmomath.NewDecFromBigIntWithPrec(new(big.Int).Set(x), 18) }

func c10Price(name string) *big.Int {
	return vNondetBigRange(name, new(big.Int), new(big.Int).Lsh(big.NewInt(1), 160))
}

func c10Ms(ns int64) *big.Int { return new(big.Int).Div(big.NewInt(ns), big.NewInt(1000000)) }

// two segments: price a in force on [t0, t1), price b from t1 on; query [s, e] with t0 <= s <= t1 <= e
func c10TwoSegments(quote0 bool) {
	t0 := vNondetRange("t0", 1, 50*c10Year)
	d01 := vNondetRange("t1_minus_t0", 0, c10Year)
	ds := vNondetRange("s_minus_t0", 0, c10Year)
	de := vNondetRange("e_minus_t1", 0, c10Year)
	t1 := t0 + d01
	s := t0 + ds
	e := t1 + de
	vAssume(s <= t1)
	pa, pb := c10Price("price_a"), c10Price("price_b")
	qa, qb := c10Price("inv_price_a"), c10Price("inv_price_b")
	acc0, acc1 := c10Price("accum0"), c10Price("accum1")
	errNs := vNondetRange("last_error_ns", 0, 49*c10Year) // an old error, before t0... or none
	vAssume(errNs < t0)
	r0 := types.TwapRecord{
		PoolId: 1, Asset0Denom: "aaa", Asset1Denom: "bbb", Height: 1,
		Time:                        vTimeFromNanos(t0),
		P0LastSpotPrice:             c10Dec(pa),
		P1LastSpotPrice:             c10Dec(qa),
		P0ArithmeticTwapAccumulator: c10Dec(acc0),
		P1ArithmeticTwapAccumulator: c10Dec(acc1),
		GeometricTwapAccumulator:    osmomath.ZeroDec(),
		LastErrorTime:               vTimeFromNanos(errNs),
	}
	// the geometric accumulator is not part of this lemma: cut twapLog
	vOverride("github.com/osmosis-labs/osmosis/v31/x/twap.twapLog", c10LogStub)
	vReach("reach")
	// end of the block at t1: accumulate, then the new spot prices come into force
	r1 := recordWithUpdatedAccumulators(r0, vTimeFromNanos(t1))
	r1.P0LastSpotPrice = c10Dec(pb)
	r1.P1LastSpotPrice = c10Dec(qb)
	vAssert(r0.P0ArithmeticTwapAccumulator.BigIntMut().Cmp(acc0) == 0 && r0.Time.Equal(vTimeFromNanos(t0)), "update-does-not-mutate-the-old-record")
	// accumulator(t1) = accumulator(t0) + price_a * (ms(t1) - ms(t0)), exactly
	dms := new(big.Int).Sub(c10Ms(t1), c10Ms(t0))
	vAssert(r1.P0ArithmeticTwapAccumulator.BigIntMut().Cmp(new(big.Int).Add(acc0, new(big.Int).Mul(pa, dms))) == 0, "accumulator-is-price-times-elapsed-ms")
	vAssert(r1.P1ArithmeticTwapAccumulator.BigIntMut().Cmp(new(big.Int).Add(acc1, new(big.Int).Mul(qa, dms))) == 0, "accumulator1-is-price-times-elapsed-ms")
	// interpolated records at the query end points
	startRec := recordWithUpdatedAccumulators(r0, vTimeFromNanos(s))
	endRec := recordWithUpdatedAccumulators(r1, vTimeFromNanos(e))
	quote := "bbb"
	p1, p2 := qa, qb
	if quote0 {
		quote, p1, p2 = "aaa", pa, pb
	}
	var twapV osmomath.Dec
	var err error
	panicked := vPanics(func() { twapV, err = computeTwap(startRec, endRec, quote, &arithmetic{}) })
	total := new(big.Int).Sub(c10Ms(e), c10Ms(s))
	if e == s {
		vAssert(!panicked, "empty-interval:no-panic")
		if !panicked {
			vAssert(twapV.BigIntMut().Cmp(p2) == 0 || (s < t1 && twapV.BigIntMut().Cmp(p1) == 0), "empty-interval:last-spot-price")
		}
		return
	}
	if total.Sign() == 0 {
		// a non-empty interval inside one millisecond has no canonical duration; the query must not return a number
		return
	}
	vAssert(!panicked, "no-panic")
	if panicked {
		return
	}
	w1 := new(big.Int).Sub(c10Ms(t1), c10Ms(s))
	w2 := new(big.Int).Sub(c10Ms(e), c10Ms(t1))
	weighted := new(big.Int).Add(new(big.Int).Mul(p1, w1), new(big.Int).Mul(p2, w2))
	tw := twapV.BigIntMut()
	// time-weighted mean, truncated at 18 decimals
	vAssert(new(big.Int).Mul(tw, total).Cmp(weighted) <= 0, "twap-not-above-weighted-mean")
	vAssert(new(big.Int).Mul(new(big.Int).Add(tw, big.NewInt(1)), total).Cmp(weighted) > 0, "twap-within-one-ulp-of-weighted-mean")
	lo, hi := p1, p2
	if p2.Cmp(p1) < 0 {
		lo, hi = p2, p1
	}
	if w1.Sign() == 0 {
		lo, hi = p2, p2
	}
	if w2.Sign() == 0 {
		lo, hi = p1, p1
	}
	vAssert(tw.Cmp(hi) <= 0, "twap-at-most-the-maximum-price-in-force")
	vAssert(new(big.Int).Add(tw, big.NewInt(1)).Cmp(lo) > 0, "twap-at-least-the-minimum-price-in-force")
	// a zero spot price (an error) in force during the interval is flagged
	if (pa.Sign() == 0 && s < t1) || (pa.Sign() == 0 && qa.Sign() == 0 && false) {
		vAssert(err != nil, "zero-price-in-first-segment-is-flagged")
	}
	if pb.Sign() == 0 && e > t1 {
		vAssert(err != nil, "zero-price-in-second-segment-is-flagged")
	}
	if pa.Sign() != 0 && pb.Sign() != 0 {
		vAssert(err == nil, "no-flag-without-an-error-in-the-interval")
	}
}

func c10LogStub(price osmomath.Dec) osmomath.Dec {
	if price.IsZero() {
		panic("twap: cannot take logarithm of zero")
	}
	return osmomath.ZeroDec()
}

func VH_C10_arithmetic_quote_asset0() { c10TwoSegments(true) }
func VH_C10_arithmetic_quote_asset1() { c10TwoSegments(false) }

var _ = time.Second
