#!/bin/bash
# seedtest.sh <seed-name> <property id> [check args]: apply seeded/<seed-name>/patch.diff to /repo, run the check, undo.
set -u
SEED="$1"; ID="$2"; shift 2
cd /verif
git -C /repo diff --quiet || { echo "/repo has uncommitted changes"; exit 2; }
git -C /repo apply "/verif/seeded/$SEED/patch.diff" || { echo "patch does not apply"; exit 3; }
timeout ${SEED_TIMEOUT:-3000} ./check "$ID" "$@"; RC=$?
git -C /repo checkout -- .
echo "seedtest $SEED property=$ID exit=$RC"
exit 0
