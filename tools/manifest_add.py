#!/usr/bin/env python3
# manifest_add.py <id> <design_ref> <text> <note>: register a check in MANIFEST.json
import json,sys
id,ref,text,note=sys.argv[1:5]
m=json.load(open('/verif/MANIFEST.json'))
m['checks']=[c for c in m['checks'] if c['property_id']!=id]
m['checks'].append({"property_id":id,"quick_cmd":"./check %s --tier quick"%id,"thorough_cmd":"./check %s --tier thorough"%id,"evidence_file":"evidence/%s.json"%id,"replay_cmd_template":"./check %s --replay {path}"%id,"engine":"gosym",
 "level_claimed":{"category":"model_checking","text":text,"design_ref":ref},"level_note":note,
 "technique":"solver-based checking: go/ssa symbolic execution of the repository's functions -> SMT-LIB (Int), z3 4.8.12 / z3 5.1.0 / cvc5 1.0 portfolio, native replay of counterexamples"})
m['checks'].sort(key=lambda c:c['property_id'])
m['not_applicable']=[x for x in m.get('not_applicable',[]) if x['property_id']!=id]
m['engines'][0]['serves_properties']=sorted(c['property_id'] for c in m['checks'])
json.dump(m,open('/verif/MANIFEST.json','w'),indent=1)
