#!/bin/bash
# verify_seed.sh <seed-dir> <demo-dest-relpath> <run-dir-rel> <go test args...>
# Confirms in a scratch worktree of /repo HEAD: (1) demo passes unpatched, (2) patch applies, builds, baseline suites pass,
# (3) demo fails with the patch. Removes the worktree afterwards.
set -u
SEED="$1"; DEST="$2"; RUNDIR="$3"; shift 3
WT=/tmp/wt/verify_$$
git -C /repo worktree add -q --detach "$WT" HEAD || exit 2
trap 'git -C /repo worktree remove --force "$WT"' EXIT
unset GOFLAGS; export GOPROXY=off GOSUMDB=off GOTOOLCHAIN=local
# SEED_STATIK=1: the demo imports package app, whose emptied client/docs/statik/statik.go needs a stub overlay
if [ "${SEED_STATIK:-0}" = 1 ]; then
  mkdir -p /tmp/wt/statik_$$; echo "package statik" > /tmp/wt/statik_$$/statik.go
  printf '{"Replace":{"%s/client/docs/statik/statik.go":"/tmp/wt/statik_%s/statik.go"}}' "$WT" "$$" > /tmp/wt/statik_$$/overlay.json
  set -- -overlay /tmp/wt/statik_$$/overlay.json "$@"
fi
mkdir -p "$(dirname "$WT/$DEST")"; cp "$SEED/demo_test.go" "$WT/$DEST"
echo "--- demo on unpatched tree"
(cd "$WT/$RUNDIR" && go test -vet=off -count=1 "$@" 2>&1 | tail -3); U=${PIPESTATUS[0]}
(cd "$WT/$RUNDIR" && go test -vet=off -count=1 "$@" >/dev/null 2>&1); U=$?
rm -f "$WT/$DEST"
echo "--- apply patch"
git -C "$WT" apply "$SEED/patch.diff" || { echo "PATCH DOES NOT APPLY"; exit 3; }
echo "--- baseline with patch"
B=0
for m in osmomath osmoutils x/epochs; do (cd "$WT/$m" && go test -vet=off -count=1 ./... 2>&1 | grep -v "^ok\|no test files" | head -5); (cd "$WT/$m" && go test -vet=off -count=1 ./... >/dev/null 2>&1) || B=1; done
cp "$SEED/demo_test.go" "$WT/$DEST"
echo "--- demo on patched tree"
(cd "$WT/$RUNDIR" && go test -vet=off -count=1 "$@" 2>&1 | grep -v "^\s*$" | tail -6)
(cd "$WT/$RUNDIR" && go test -vet=off -count=1 "$@" >/dev/null 2>&1); P=$?
echo "RESULT unpatched_exit=$U baseline_fail=$B patched_exit=$P"
[ $U -eq 0 ] && [ $B -eq 0 ] && [ $P -ne 0 ] && echo "SEED-OK" || echo "SEED-BAD"
