package main

import (
	"flag"
	"fmt"
	"os"
	"path/filepath"
	"regexp"

	"verif/gosym/sym"
)

func main() {
	if len(os.Args) < 2 {
		fmt.Println("usage: gosym run|check ...")
		os.Exit(2)
	}
	switch os.Args[1] {
	case "run":
		cmdRun(os.Args[2:])
	case "replay":
		fs := flag.NewFlagSet("replay", flag.ExitOnError)
		prop := fs.String("prop", "", "property spec json")
		cex := fs.String("cex", "", "counterexample json written by a check")
		fs.Parse(os.Args[2:])
		os.Exit(sym.RunReplay(*prop, *cex))
	case "check":
		cmdCheck(os.Args[2:])
	default:
		fmt.Println("unknown command")
		os.Exit(2)
	}
}

// run: ad-hoc run of harnesses of one package (development aid)
func cmdRun(args []string) {
	fs := flag.NewFlagSet("run", flag.ExitOnError)
	dir := fs.String("dir", "/repo/osmomath", "module dir to load from")
	pkgDir := fs.String("pkgdir", "", "package dir (default: dir)")
	pkgPath := fs.String("pkg", "github.com/osmosis-labs/osmosis/osmomath", "package import path")
	pkgName := fs.String("pkgname", "osmomath", "package name")
	harness := fs.String("harness", "", "harness file(s), comma separated")
	funcs := fs.String("funcs", "^VH_", "regexp of harness functions")
	verbose := fs.Bool("v", false, "verbose")
	trace := fs.Bool("trace", false, "trace instructions")
	unwind := fs.Int("unwind", 8, "unwind bound")
	timeout := fs.Int("timeout", 20000, "solver timeout ms")
	nomerge := fs.Bool("nomerge", false, "disable merging")
	initp := fs.String("init", "", "comma separated packages whose init is interpreted")
	dump := fs.String("dump", "", "dir to dump smt2 scripts")
	fs.Parse(args)
	if *pkgDir == "" {
		*pkgDir = *dir
	}
	hf := map[string][]string{*pkgDir: splitComma(*harness)}
	ov, err := sym.BuildOverlay("/verif/harness/vrt/vrt.go", hf, map[string]string{*pkgDir: *pkgName})
	if err != nil {
		panic(err)
	}
	l, err := sym.Load(*dir, []string{*pkgPath}, ov)
	if err != nil {
		fmt.Println("load error:", err)
		os.Exit(2)
	}
	fmt.Printf("loaded %d packages in %.1fs\n", l.NumPkgs, l.LoadSecs)
	pkg := l.Pkgs[*pkgPath]
	re := regexp.MustCompile(*funcs)
	inits := splitComma(*initp)
	if len(inits) == 0 {
		inits = []string{*pkgPath}
	}
	for _, fn := range sym.HarnessFuncs(pkg, re) {
		res := sym.RunHarness(l, fn, sym.HarnessConfig{Unwind: *unwind, Verbose: *verbose, Trace: *trace, Merge: !*nomerge, InitPkgs: inits})
		fmt.Printf("== %s: paths=%d ret=%d pruned=%d panicked=%d errors=%d instrs=%d branchq=%d obligations=%d defs=%d (%.2fs)\n", res.Name, res.Paths, res.Returned, res.Pruned, res.Panicked, len(res.Errors), res.Instrs, res.BranchQueries, len(res.Obligations), res.Defs, res.Secs)
		for _, e := range res.Errors {
			fmt.Println("   inconclusive:", e)
		}
		sym.SolveAll(res.Obligations, 8, *timeout, nil, false)
		for i, ob := range res.Obligations {
			fmt.Println("   ", ob)
			if *dump != "" {
				os.MkdirAll(*dump, 0o755)
				os.WriteFile(filepath.Join(*dump, fmt.Sprintf("%s_%d.smt2", res.Name, i)), []byte(ob.Script+"(check-sat)\n"), 0o644)
			}
			if ob.Kind == "assert" && ob.Result == sym.Sat && ob.Model != nil {
				for k, v := range ob.Model.Ints {
					if len(k) > 0 && !containsBang(k) {
						fmt.Printf("        %s = %s\n", k, v)
					}
				}
			}
		}
		for _, o := range res.Observed {
			fmt.Printf("    observe %s = %s\n", o.Label, o.Val)
		}
	}
}

func containsBang(s string) bool {
	for _, c := range s {
		if c == '!' {
			return true
		}
	}
	return false
}

func splitComma(s string) []string {
	var out []string
	cur := ""
	for _, c := range s {
		if c == ',' {
			if cur != "" {
				out = append(out, cur)
			}
			cur = ""
		} else {
			cur += string(c)
		}
	}
	if cur != "" {
		out = append(out, cur)
	}
	return out
}

func cmdCheck(args []string) {
	fs := flag.NewFlagSet("check", flag.ExitOnError)
	prop := fs.String("prop", "", "property spec json")
	tier := fs.String("tier", "quick", "quick|thorough")
	only := fs.String("only", "", "regexp restricting harness functions")
	verbose := fs.Bool("v", false, "verbose")
	fs.Parse(args)
	os.Exit(sym.RunCheck(*prop, *tier, *only, *verbose))
}
