package sym

import (
	"fmt"
	"go/types"
	"os"
	"path/filepath"
	"regexp"
	"sort"
	"strings"
	"sync"
	"time"

	"golang.org/x/tools/go/packages"
	"golang.org/x/tools/go/ssa"
	"golang.org/x/tools/go/ssa/ssautil"
)

// Loaded is an SSA program with the harness packages.
type Loaded struct {
	Prog *ssa.Program
	Pkgs map[string]*ssa.Package
	LoadSecs float64
	NumPkgs  int
}

var lookupMu sync.Mutex

// rewritePackageClause returns src with its package clause set to pkgName.
func rewritePackageClause(src []byte, pkgName string) []byte {
	re := regexp.MustCompile(`(?m)^package\s+\w+`)
	return re.ReplaceAll(src, []byte("package "+pkgName))
}

// BuildOverlay prepares overlay contents: for each target package dir, the rt file and harness files.
// harnessFiles maps package dir (absolute) -> list of harness source files.
func BuildOverlay(rtFile string, harnessFiles map[string][]string, pkgNames map[string]string) (map[string][]byte, error) {
	ov := map[string][]byte{}
	rt, err := os.ReadFile(rtFile)
	if err != nil {
		return nil, err
	}
	for dir, files := range harnessFiles {
		name := pkgNames[dir]
		ov[filepath.Join(dir, "zz_verif_rt.go")] = rewritePackageClause(rt, name)
		for _, f := range files {
			src, err := os.ReadFile(f)
			if err != nil {
				return nil, err
			}
			base, src := SharedHarnessFile(f, src, name)
			ov[filepath.Join(dir, base)] = src
		}
	}
	return ov, nil
}

func Load(dir string, patterns []string, overlay map[string][]byte) (*Loaded, error) {
	t0 := time.Now()
	cfg := &packages.Config{Mode: packages.LoadAllSyntax, Dir: dir, Overlay: overlay, Env: cleanEnv()}
	pkgs, err := packages.Load(cfg, patterns...)
	if err != nil {
		return nil, err
	}
	var errs []string
	packages.Visit(pkgs, nil, func(p *packages.Package) {
		for _, e := range p.Errors {
			// tolerate errors in packages we do not execute (e.g. emptied statik) but report them
			errs = append(errs, p.PkgPath+": "+e.Error())
		}
	})
	for _, p := range pkgs {
		if len(p.Errors) > 0 {
			return nil, fmt.Errorf("load errors in %s: %v", p.PkgPath, p.Errors)
		}
	}
	prog, spkgs := ssautil.AllPackages(pkgs, ssa.InstantiateGenerics)
	l := &Loaded{Prog: prog, Pkgs: map[string]*ssa.Package{}}
	for i, sp := range spkgs {
		if sp == nil {
			return nil, fmt.Errorf("no SSA package for %s (errors: %v)", pkgs[i].PkgPath, errs)
		}
		sp.Build()
		l.Pkgs[pkgs[i].PkgPath] = sp
	}
	n := 0
	packages.Visit(pkgs, nil, func(p *packages.Package) { n++ })
	l.NumPkgs = n
	l.LoadSecs = time.Since(t0).Seconds()
	// locate math/big.Int
	for _, p := range prog.AllPackages() {
		if p.Pkg.Path() == "math/big" {
			if tn := p.Pkg.Scope().Lookup("Int"); tn != nil {
				bigIntType = tn.Type()
			}
		}
	}
	return l, nil
}

func cleanEnv() []string {
	var env []string
	for _, kv := range os.Environ() {
		if strings.HasPrefix(kv, "GOFLAGS=") {
			continue
		}
		env = append(env, kv)
	}
	env = append(env, "GOFLAGS=", "GOPROXY=off", "GOSUMDB=off", "GOTOOLCHAIN=local")
	return env
}

// HarnessConfig controls one harness exploration.
type HarnessConfig struct {
	Unwind          int
	BranchTimeoutMs int
	InitPkgs        []string
	Concrete        map[string]string
	Verbose         bool
	Trace           bool
	Merge           bool
	BranchSolver    string
	Tier            string
	ExploreSeconds  int
	Lazy            bool
	BranchSliceHops int
}

type HarnessResult struct {
	Name         string
	Obligations  []*Obligation
	Paths        int
	Returned     int
	Pruned       int
	Panicked     int
	Errors       []string
	Instrs       int
	BranchQueries int
	BranchSecs float64
	Funcs        []string
	Secs         float64
	Observed     []Observation
	UninitReads  map[string]string
	Defs         int
}

// RunHarness explores one harness function symbolically and returns its obligations (unsolved).
func RunHarness(l *Loaded, fn *ssa.Function, cfg HarnessConfig) (res *HarnessResult) {
	t0 := time.Now()
	names := []string{"z3-new"}
	if cfg.BranchSolver != "" {
		names = []string{cfg.BranchSolver}
	}
	solver := NewSolver(names...)
	defer solver.Close()
	e := NewExec(l.Prog, solver)
	e.CurHarness = fn.Name()
	e.Verbose = cfg.Verbose
	e.Trace = cfg.Trace
	e.Merge = cfg.Merge
	e.Tier = cfg.Tier
	if cfg.ExploreSeconds > 0 {
		e.Deadline = time.Now().Add(time.Duration(cfg.ExploreSeconds) * time.Second)
	}
	e.Lazy = cfg.Lazy
	e.BranchSliceHops = cfg.BranchSliceHops
	if cfg.Unwind > 0 {
		e.Unwind = cfg.Unwind
	}
	if cfg.BranchTimeoutMs > 0 {
		e.BranchTimeoutMs = cfg.BranchTimeoutMs
	}
	for _, p := range cfg.InitPkgs {
		e.InitPkgs[p] = true
	}
	if cfg.Concrete != nil {
		e.Concrete = map[string]*bigInt{}
		for k, v := range cfg.Concrete {
			b, ok := newBigFromString(v)
			if !ok {
				panic("bad concrete value " + v)
			}
			e.Concrete[k] = b
		}
	}
	res = &HarnessResult{Name: fn.Name()}
	defer func() {
		if r := recover(); r != nil {
			if ee, ok := r.(*execError); ok {
				res.Errors = append(res.Errors, "engine: "+ee.msg)
				res.Secs = time.Since(t0).Seconds()
				return
			}
			panic(r)
		}
	}()
	st := &State{Heap: NewHeap()}
	// pre-run package initialisers of the configured packages (in import order as listed)
	for _, p := range cfg.InitPkgs {
		for _, sp := range l.Prog.AllPackages() {
			if sp.Pkg.Path() == p {
				e.ensureInit(st, sp)
			}
		}
	}
	st.Heap.Freeze()
	e.Instrs = 0
	outs := e.CallFunction(st, fn, nil, 0)
	for _, o := range outs {
		res.Paths++
		switch o.Kind {
		case OutReturn:
			res.Returned++
		case OutPruned:
			res.Pruned++
		case OutPanic:
			res.Panicked++
			// an uncaught panic in the harness is a failed obligation if reachable
			e.CurHarness = fn.Name()
			msg := e.describe(o.St, o.Pan) + " at " + shortPath(o.Why)
			e.addObligation(o.St, "assert", "no-uncaught-panic: "+truncate(msg, 160), e.TS.Bool(false))
		case OutError:
			res.Errors = append(res.Errors, o.Why)
		}
	}
	res.Obligations = e.Obligations
	res.Instrs = e.Instrs
	res.BranchQueries = e.BranchQueries
	res.BranchSecs = e.BranchSecs
	res.Observed = e.Observed
	res.UninitReads = e.UninitReads
	res.Defs = len(e.Defs)
	for f := range e.FuncsSeen {
		if isHarnessRT(f) {
			continue
		}
		pos := l.Prog.Fset.Position(f.Pos())
		if strings.Contains(pos.Filename, "zz_verif_") {
			continue
		}
		res.Funcs = append(res.Funcs, fmt.Sprintf("%s (%s:%d)", f.String(), shortPath(pos.Filename), pos.Line))
	}
	sort.Strings(res.Funcs)
	res.Secs = time.Since(t0).Seconds()
	return res
}

func truncate(s string, n int) string {
	if len(s) > n {
		return s[:n]
	}
	return s
}

func shortPath(p string) string {
	if i := strings.Index(p, "/pkg/mod/"); i >= 0 {
		return p[i+9:]
	}
	return strings.TrimPrefix(p, "/repo/")
}

// SolveAll discharges obligations with a pool of portfolio solvers.
func SolveAll(obs []*Obligation, workers int, timeoutMs int, solvers []string, crossCheck bool) map[string]*SolverStat {
	var wg sync.WaitGroup
	ch := make(chan *Obligation)
	stats := map[string]*SolverStat{}
	var smu sync.Mutex
	for w := 0; w < workers; w++ {
		wg.Add(1)
		go func() {
			defer wg.Done()
			s := NewSolver(solvers...)
			defer s.Close()
			for ob := range ch {
				want := ob.Kind == "assert" || true
				// staged portfolio: most obligations fall to the first solver within a second; racing all solvers on
				// every obligation costs three processes per query and a restart of the two losers
				stage := 1000
				if stage > timeoutMs {
					stage = timeoutMs
				}
				if d := os.Getenv("GOSYM_DUMPOBS"); d != "" {
					os.MkdirAll(d, 0o755)
					os.WriteFile(fmt.Sprintf("%s/%s_%s_%d.smt2", d, ob.Harness, strings.ReplaceAll(ob.Label, "/", "_"), len(ob.Script)), []byte(ob.Script+"(check-sat)\n"), 0o644)
				}
				first := "z3-new"
				if len(solvers) > 0 {
					first = solvers[0]
				}
				r, m, who, secs := s.checkScript(ob.Script, ob.Vars, stage, want, first)
				if r == Unknown {
					var secs2 float64
					r, m, who, secs2 = s.checkScript(ob.Script, ob.Vars, timeoutMs, want)
					secs += secs2
				}
				ob.Result, ob.Model, ob.Solver, ob.Secs = r, m, who, secs
				if r == Unknown && len(ob.Asserts) > 0 {
					// the solvers could not decide: look for a concrete model by evaluation (counterexample finder only)
					if pm := Probe(ob, 400, int64(len(ob.Script))); pm != nil {
						ob.Result, ob.Model, ob.Solver = Sat, pm, "probe"
					}
				}
				if crossCheck && r == Unsat && ob.Kind == "assert" && len(solvers) > 1 {
					// ask a different solver to confirm
					var others []string
					for _, n := range solvers {
						if n != who {
							others = append(others, n)
						}
					}
					// the confirmation gets at most a minute: a goal only one solver can decide within the cap is reported as
					// "cross-check inconclusive", it does not hold the whole run for the full cap
					ccMs := timeoutMs
					if ccMs > 60000 {
						ccMs = 60000
					}
					r2, _, who2, secs2 := s.checkScript(ob.Script, ob.Vars, ccMs, false, others...)
					ob.Secs += secs2
					if r2 == Sat {
						ob.Result = Unknown
						ob.Note = fmt.Sprintf("solver disagreement: %s unsat vs %s sat", who, who2)
					} else if r2 == Unsat {
						ob.Note = "cross-checked by " + who2
					} else {
						ob.Note = "cross-check inconclusive"
					}
				}
			}
			smu.Lock()
			for n, st := range s.Stats {
				if stats[n] == nil {
					stats[n] = &SolverStat{}
				}
				stats[n].Queries += st.Queries
				stats[n].Wins += st.Wins
				stats[n].Seconds += st.Seconds
				stats[n].Errors += st.Errors
			}
			smu.Unlock()
		}()
	}
	for _, ob := range obs {
		if ob.Trivial {
			continue
		}
		ch <- ob
	}
	close(ch)
	wg.Wait()
	return stats
}

// checkScript is Check on a pre-rendered script.
func (s *Solver) checkScript(script string, vars []*Term, timeoutMs int, wantModel bool, only ...string) (Result, *Model, string, float64) {
	return s.checkRaw(script, vars, timeoutMs, wantModel, only...)
}

// HarnessFuncs returns the harness entry points of a package matching the regexp, sorted by name.
func HarnessFuncs(pkg *ssa.Package, re *regexp.Regexp) []*ssa.Function {
	var fns []*ssa.Function
	for _, m := range pkg.Members {
		if f, ok := m.(*ssa.Function); ok && re.MatchString(f.Name()) {
			if f.Signature.Params().Len() == 0 && f.Signature.Recv() == nil {
				fns = append(fns, f)
			}
		}
	}
	sort.Slice(fns, func(i, j int) bool { return fns[i].Name() < fns[j].Name() })
	return fns
}

var _ = types.Typ

// SharedHarnessFile maps files of the shared runtime directory (harness/vrt) into the target package:
// the package clause is rewritten and the file is named zz_verif_<base>.
func SharedHarnessFile(path string, src []byte, pkgName string) (string, []byte) {
	base := filepath.Base(path)
	if strings.Contains(path, "/harness/vrt/") {
		return "zz_verif_" + base, rewritePackageClause(src, pkgName)
	}
	return base, src
}
