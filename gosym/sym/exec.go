package sym

import (
	"fmt"
	"go/constant"
	"go/token"
	"go/types"
	"math/big"
	"os"
	"strings"
	"time"

	"golang.org/x/tools/go/ssa"
)

// execError aborts the current path as unsupported/inconclusive.
type execError struct{ msg string }

func (e *execError) Error() string { return e.msg }

func unsupported(format string, args ...interface{}) {
	panic(&execError{fmt.Sprintf(format, args...)})
}

// State is the per-path symbolic state.
type State struct {
	Heap *Heap
	PC   []*Term
	// harness bookkeeping
	Notes []string
	// SplitTag records explicit case splits (vChoose); states with different tags are never merged
	SplitTag string
	// Overrides are contract stubs installed by the harness on this path (vOverride)
	Overrides map[string]Intrinsic
}

func (s *State) Fork() *State {
	n := &State{Heap: s.Heap.Fork()}
	n.PC = make([]*Term, len(s.PC), len(s.PC)+4)
	copy(n.PC, s.PC)
	n.Notes = append([]string{}, s.Notes...)
	n.SplitTag = s.SplitTag
	if s.Overrides != nil {
		n.Overrides = make(map[string]Intrinsic, len(s.Overrides))
		for k, v := range s.Overrides {
			n.Overrides[k] = v
		}
	}
	return n
}

type OutKind int

const (
	OutReturn OutKind = iota
	OutPanic
	OutPruned // assumption false / infeasible
	OutError  // engine could not continue (inconclusive)
)

type Outcome struct {
	Kind OutKind
	St   *State
	Ret  Value // result (Tuple for multi)
	Pan  Value // panic value
	Why  string
}

type panicRec struct {
	val       Value
	recovered bool
	where     string
}

type deferred struct {
	fn   Value
	args []Value
	// for invoke-mode defers
	method *types.Func
}

type Frame struct {
	fn     *ssa.Function
	locals map[ssa.Value]Value
	block  *ssa.BasicBlock
	prev   *ssa.BasicBlock
	pc     int
	defers []deferred
	st     *State
	forks  map[ssa.Instruction]int
	// unwinding state
	unwinding   *panicRec
	recoverable *panicRec // set when this frame is a deferred call made while unwinding
	runningDefers bool
	depth       int
	steps       int
}

func (f *Frame) clone(st *State) *Frame {
	n := &Frame{fn: f.fn, block: f.block, prev: f.prev, pc: f.pc, st: st, unwinding: f.unwinding, recoverable: f.recoverable, runningDefers: f.runningDefers, depth: f.depth, steps: f.steps}
	n.locals = make(map[ssa.Value]Value, len(f.locals))
	for k, v := range f.locals {
		n.locals[k] = v
	}
	n.defers = append([]deferred{}, f.defers...)
	n.forks = make(map[ssa.Instruction]int, len(f.forks))
	for k, v := range f.forks {
		n.forks[k] = v
	}
	if f.unwinding != nil {
		c := *f.unwinding
		n.unwinding = &c
	}
	return n
}

// Exec is the symbolic executor for one harness run.
type Exec struct {
	Prog    *ssa.Program
	TS      *Store
	Solver  *Solver
	Defs    []*Term // global guarded definitions (division, sqrt, ...)
	defKey  map[string][]*Term
	globals map[*ssa.Global]int
	initSt  map[*ssa.Package]int // 0 none, 1 running, 2 done
	InitPkgs map[string]bool      // packages whose init may be interpreted
	Unwind  int
	MaxDepth int
	BranchTimeoutMs int
	ConcretizeTimeoutMs int
	Merge   bool
	NoMergePkgs []string
	// harness results
	Obligations []*Obligation
	Observed    []Observation
	Inconclusive []string
	FuncsSeen   map[*ssa.Function]int
	Instrs      int
	Paths       int
	BranchQueries int
	BranchSliceHops int
	Lazy bool
	callNames []string
	initStores map[*ssa.Package]map[*ssa.Global]bool
	// UninitReads: globals used although their package initialiser was not interpreted (global -> package path)
	UninitReads map[string]string
	bigstrBack map[int]*Term
	activeFns map[*ssa.Function]int
	// LazyMath: no feasibility queries on branches inside the pure arithmetic packages (see isMathFn)
	LazyMath bool
	ModelHits int
	models []*Model
	BranchSecs float64
	Verbose     bool
	nondet      map[string]Value
	Concrete    map[string]*bigInt // pinned nondet values (selftest / replay)
	strIntern   map[string]int64
	Overrides   map[string]Intrinsic
	Contracts   map[string]bool
	inInit      bool
	feasCache   map[string]Result
	Trace       bool
	LenOfSym    map[int]*Term
	CurHarness  string
	builtPkgs   map[*ssa.Package]bool
	noIntrinsicOnce *ssa.Function
	Deadline    time.Time
	FreshDefs   map[string]*FreshDef
	ContractsUsed []string
	Tier        string
	BitLenDense int
}

type Observation struct {
	Label string
	Val   string
}

func NewExec(prog *ssa.Program, solver *Solver) *Exec {
	e := &Exec{Prog: prog, TS: NewStore(), Solver: solver, globals: map[*ssa.Global]int{}, initSt: map[*ssa.Package]int{},
		Unwind: 8, MaxDepth: 400, BranchTimeoutMs: 2000, ConcretizeTimeoutMs: 20000, Merge: true, FuncsSeen: map[*ssa.Function]int{}, defKey: map[string][]*Term{},
		nondet: map[string]Value{}, strIntern: map[string]int64{}, feasCache: map[string]Result{}, InitPkgs: map[string]bool{}, LenOfSym: map[int]*Term{}, FreshDefs: map[string]*FreshDef{}, builtPkgs: map[*ssa.Package]bool{}}
	return e
}

func (e *Exec) logf(format string, args ...interface{}) {
	if e.Verbose {
		fmt.Fprintf(os.Stderr, format+"\n", args...)
	}
}

// ---------- zero values

func (e *Exec) zero(t types.Type) Value {
	if isBigInt(t) {
		return e.TS.Int64(0)
	}
	if isTime(t) {
		return e.TS.Int(zeroTimeNs)
	}
	switch u := t.Underlying().(type) {
	case *types.Basic:
		switch {
		case u.Info()&types.IsBoolean != 0:
			return e.TS.Bool(false)
		case u.Info()&types.IsInteger != 0:
			return e.TS.Int64(0)
		case u.Info()&types.IsString != 0:
			return ""
		case u.Info()&types.IsFloat != 0:
			return float64(0)
		case u.Kind() == types.UnsafePointer:
			return Ptr{}
		case u.Kind() == types.UntypedNil:
			return nil
		}
		unsupported("zero of basic %v", u)
	case *types.Pointer:
		return Ptr{}
	case *types.Struct:
		a := &Agg{Elems: make([]Value, u.NumFields())}
		for i := 0; i < u.NumFields(); i++ {
			a.Elems[i] = e.zero(u.Field(i).Type())
		}
		return a
	case *types.Array:
		n := int(u.Len())
		a := &Agg{Elems: make([]Value, n)}
		if n > 0 {
			z := e.zero(u.Elem())
			for i := range a.Elems {
				a.Elems[i] = z
			}
		}
		return a
	case *types.Slice:
		return Slice{}
	case *types.Map:
		return MapRef{}
	case *types.Interface:
		return Iface{}
	case *types.Signature:
		return nil
	case *types.Chan:
		return Ptr{}
	case *types.Tuple:
		tt := make(Tuple, u.Len())
		for i := range tt {
			tt[i] = e.zero(u.At(i).Type())
		}
		return tt
	}
	unsupported("zero of %v", t)
	return nil
}

// ---------- integer typing helpers

func intInfo(t types.Type) (bits int, signed bool, ok bool) {
	b, isb := t.Underlying().(*types.Basic)
	if !isb || b.Info()&types.IsInteger == 0 {
		return 0, false, false
	}
	switch b.Kind() {
	case types.Int8:
		return 8, true, true
	case types.Int16:
		return 16, true, true
	case types.Int32:
		return 32, true, true
	case types.Int64, types.Int, types.UntypedInt, types.UntypedRune:
		return 64, true, true
	case types.Uint8:
		return 8, false, true
	case types.Uint16:
		return 16, false, true
	case types.Uint32:
		return 32, false, true
	case types.Uint64, types.Uint, types.Uintptr:
		return 64, false, true
	}
	return 0, false, false
}

func intRange(bits int, signed bool) (lo, hi *big.Int) {
	if signed {
		hi = new(big.Int).Lsh(big.NewInt(1), uint(bits-1))
		lo = new(big.Int).Neg(hi)
		hi = new(big.Int).Sub(hi, big.NewInt(1))
		return
	}
	lo = new(big.Int)
	hi = new(big.Int).Lsh(big.NewInt(1), uint(bits))
	hi.Sub(hi, big.NewInt(1))
	return
}

// wrap reduces t into the range of the machine integer type.
func (e *Exec) wrap(t *Term, typ types.Type) *Term {
	bits, signed, ok := intInfo(typ)
	if !ok {
		return t
	}
	lo, hi := intRange(bits, signed)
	if t.Lo != nil && t.Hi != nil && t.Lo.Cmp(lo) >= 0 && t.Hi.Cmp(hi) <= 0 {
		return t
	}
	mod := new(big.Int).Lsh(big.NewInt(1), uint(bits))
	if t.Op == OpConst {
		v := new(big.Int).Mod(t.Val, mod)
		if signed && v.Cmp(hi) > 0 {
			v.Sub(v, mod)
		}
		return e.TS.Int(v)
	}
	if signed {
		half := new(big.Int).Lsh(big.NewInt(1), uint(bits-1))
		return e.TS.Sub(e.TS.ModC(e.TS.Add(t, e.TS.Int(half)), mod), e.TS.Int(half))
	}
	return e.TS.ModC(t, mod)
}

// ---------- definitions (relational division etc.)

func (e *Exec) addDef(t *Term) { e.Defs = append(e.Defs, t) }

// truncDivRem returns q,r with n = d*q + r, |r|<|d|, sign(r)=sign(n) (Go Quo/Rem). Caller guarantees d != 0 on the path.
func (e *Exec) truncDivRem(n, d *Term) (*Term, *Term) {
	ts := e.TS
	if n.Op == OpConst && d.Op == OpConst {
		q, r := new(big.Int).QuoRem(n.Val, d.Val, new(big.Int))
		return ts.Int(q), ts.Int(r)
	}
	key := fmt.Sprintf("tdiv:%d:%d", n.id, d.id)
	if v, ok := e.defKey[key]; ok {
		return v[0], v[1]
	}
	var q, r *Term
	if d.Op == OpConst {
		ad := new(big.Int).Abs(d.Val)
		// magnitude quotient via floor division of |n|
		if n.Lo != nil && n.Lo.Sign() >= 0 {
			qa := ts.DivC(n, ad)
			ra := ts.ModC(n, ad)
			if d.Val.Sign() < 0 {
				q = ts.Neg(qa)
			} else {
				q = qa
			}
			r = ra
		} else {
			nonneg := ts.Ge(n, ts.Int64(0))
			negn := ts.Neg(n)
			qa := ts.Ite(nonneg, ts.DivC(n, ad), ts.Neg(ts.DivC(negn, ad)))
			r = ts.Ite(nonneg, ts.ModC(n, ad), ts.Neg(ts.ModC(negn, ad)))
			if d.Val.Sign() < 0 {
				q = ts.Neg(qa)
			} else {
				q = qa
			}
		}
		e.defKey[key] = []*Term{q, r}
		return q, r
	}
	// symbolic divisor: fresh magnitude quotient qa>=0 and remainder ra with |n| = |d|*qa + ra, 0<=ra<|d|
	zero := ts.Int64(0)
	var qHi, rHi *big.Int
	if n.Lo != nil && n.Hi != nil {
		qHi = new(big.Int).Abs(n.Lo)
		if h := new(big.Int).Abs(n.Hi); h.Cmp(qHi) > 0 {
			qHi = h
		}
		// a divisor bounded away from zero tightens the quotient bound
		if d.Lo != nil && d.Lo.Sign() > 0 {
			qHi = new(big.Int).Quo(qHi, d.Lo)
		} else if d.Hi != nil && d.Hi.Sign() < 0 {
			qHi = new(big.Int).Quo(qHi, new(big.Int).Abs(d.Hi))
		}
	}
	if d.Lo != nil && d.Hi != nil {
		rHi = new(big.Int).Abs(d.Lo)
		if h := new(big.Int).Abs(d.Hi); h.Cmp(rHi) > 0 {
			rHi = h
		}
		if rHi.Sign() > 0 {
			rHi = new(big.Int).Sub(rHi, big.NewInt(1))
		}
	}
	qa := ts.FreshBounded("q", new(big.Int), qHi)
	ra := ts.FreshBounded("r", new(big.Int), rHi)
	e.FreshDefs[qa.Name] = &FreshDef{Kind: "absquo", Args: []*Term{n, d}}
	e.FreshDefs[ra.Name] = &FreshDef{Kind: "absrem", Args: []*Term{n, d}}
	absn := e.absTerm(n)
	absd := e.absTerm(d)
	def := ts.Implies(ts.Ne(d, zero), ts.And(
		ts.Eq(absn, ts.Add(ts.Mul(absd, qa), ra)),
		ts.Le(zero, ra), ts.Lt(ra, absd), ts.Le(zero, qa)))
	e.addDef(def)
	nNeg := ts.Lt(n, zero)
	dNeg := ts.Lt(d, zero)
	sameSign := ts.Iff(nNeg, dNeg)
	q = ts.Ite(sameSign, qa, ts.Neg(qa))
	r = ts.Ite(nNeg, ts.Neg(ra), ra)
	e.defKey[key] = []*Term{q, r}
	return q, r
}

func (e *Exec) absTerm(n *Term) *Term {
	ts := e.TS
	if n.Lo != nil && n.Lo.Sign() >= 0 {
		return n
	}
	if n.Hi != nil && n.Hi.Sign() <= 0 {
		return ts.Neg(n)
	}
	return ts.Ite(ts.Ge(n, ts.Int64(0)), n, ts.Neg(n))
}

// euclidDivMod: n = d*q + m, 0 <= m < |d| (big.Int Div/Mod)
func (e *Exec) euclidDivMod(n, d *Term) (*Term, *Term) {
	ts := e.TS
	if n.Op == OpConst && d.Op == OpConst {
		q, m := new(big.Int).DivMod(n.Val, d.Val, new(big.Int))
		return ts.Int(q), ts.Int(m)
	}
	if d.Op == OpConst {
		return ts.DivC(n, d.Val), ts.ModC(n, d.Val)
	}
	q, r := e.truncDivRem(n, d)
	// if r < 0: if d>0 { q-1, r+d } else { q+1, r-d }
	zero := ts.Int64(0)
	rneg := ts.Lt(r, zero)
	dpos := ts.Gt(d, zero)
	one := ts.Int64(1)
	q2 := ts.Ite(rneg, ts.Ite(dpos, ts.Sub(q, one), ts.Add(q, one)), q)
	m := ts.Ite(rneg, ts.Ite(dpos, ts.Add(r, d), ts.Sub(r, d)), r)
	return q2, m
}

// isqrt returns s with s*s <= x < (s+1)^2 for x >= 0.
func (e *Exec) isqrt(x *Term) *Term {
	ts := e.TS
	if x.Op == OpConst {
		if x.Val.Sign() < 0 {
			unsupported("sqrt of negative constant")
		}
		return ts.Int(new(big.Int).Sqrt(x.Val))
	}
	key := fmt.Sprintf("sqrt:%d", x.id)
	if v, ok := e.defKey[key]; ok {
		return v[0]
	}
	var sLo, sHi *big.Int
	sLo = new(big.Int)
	if x.Lo != nil && x.Lo.Sign() > 0 {
		sLo = new(big.Int).Sqrt(x.Lo)
	}
	if x.Hi != nil && x.Hi.Sign() >= 0 {
		sHi = new(big.Int).Sqrt(x.Hi)
	}
	s := ts.FreshBounded("sqrt", sLo, sHi)
	e.FreshDefs[s.Name] = &FreshDef{Kind: "sqrt", Args: []*Term{x}}
	s1 := ts.Add(s, ts.Int64(1))
	e.addDef(ts.Implies(ts.Ge(x, ts.Int64(0)), ts.And(ts.Le(ts.Mul(s, s), x), ts.Lt(x, ts.Mul(s1, s1)))))
	e.defKey[key] = []*Term{s}
	return s
}

// ---------- string interning for symbolic string equality

func (e *Exec) internStr(s string) *Term {
	if id, ok := e.strIntern[s]; ok {
		return e.TS.Int64(id)
	}
	id := int64(len(e.strIntern) + 1)
	e.strIntern[s] = id
	return e.TS.Int64(id)
}

func (e *Exec) strID(v Value) *Term {
	switch x := v.(type) {
	case string:
		return e.internStr(x)
	case SymStr:
		return x.ID
	}
	unsupported("strID of %T", v)
	return nil
}

// ---------- constants

func (e *Exec) constValue(c *ssa.Const) Value {
	t := c.Type()
	if c.Value == nil {
		return e.zero(t)
	}
	if isBigInt(t) || isTime(t) {
		unsupported("const of intrinsic type")
	}
	switch u := t.Underlying().(type) {
	case *types.Basic:
		switch {
		case u.Info()&types.IsBoolean != 0:
			return e.TS.Bool(constant.BoolVal(c.Value))
		case u.Info()&types.IsInteger != 0:
			v := constant.ToInt(c.Value)
			bi, ok := new(big.Int).SetString(v.ExactString(), 10)
			if !ok {
				unsupported("bad int const %v", c.Value)
			}
			return e.TS.Int(bi)
		case u.Info()&types.IsString != 0:
			return constant.StringVal(c.Value)
		case u.Info()&types.IsFloat != 0:
			f, _ := constant.Float64Val(c.Value)
			return f
		}
	}
	unsupported("const %v of type %v", c, t)
	return nil
}

// ---------- globals and package init

func (e *Exec) globalPtr(st *State, g *ssa.Global) Ptr {
	if id, ok := e.globals[g]; ok {
		if st.Heap.get(id) == nil {
			// first touched on a sibling path after a fork: materialise the (still zero) global here under the same id
			elem := g.Type().(*types.Pointer).Elem()
			st.Heap.objs[id] = &Object{Root: e.zero(elem), Epoch: st.Heap.epoch, Typ: elem, Site: "global " + g.String()}
		}
		return Ptr{Obj: id}
	}
	elem := g.Type().(*types.Pointer).Elem()
	id := st.Heap.Alloc(e.zero(elem), elem, "global "+g.String())
	e.globals[g] = id
	return Ptr{Obj: id}
}

// ---------- frame value lookup

func (e *Exec) get(f *Frame, v ssa.Value) Value {
	switch x := v.(type) {
	case *ssa.Const:
		return e.constValue(x)
	case *ssa.Function:
		return x
	case *ssa.Builtin:
		return x
	case *ssa.Global:
		e.ensureInit(f.st, x.Pkg)
		e.noteUninitGlobal(x)
		return e.globalPtr(f.st, x)
	}
	val, ok := f.locals[v]
	if !ok {
		unsupported("no value for %s (%T) in %s", v.Name(), v, f.fn)
	}
	return val
}

// ensureInit runs the package initializer the first time one of its globals is touched.
func (e *Exec) ensureInit(st *State, pkg *ssa.Package) {
	if pkg == nil || e.initSt[pkg] != 0 {
		return
	}
	e.initSt[pkg] = 1
	defer func() { e.initSt[pkg] = 2 }()
	path := pkg.Pkg.Path()
	if !e.initAllowed(path) {
		return
	}
	lookupMu.Lock()
	pkg.Build()
	lookupMu.Unlock()
	initFn := pkg.Func("init")
	if initFn == nil || initFn.Blocks == nil {
		return
	}
	e.logf("init %s", path)
	// Run init on the same state; init code is concrete. Errors inside init leave globals partially set.
	saved := e.inInit
	e.inInit = true
	outs := e.CallFunction(st, initFn, nil, 0)
	e.inInit = saved
	if len(outs) != 1 || outs[0].Kind != OutReturn {
		why := ""
		if len(outs) > 0 {
			why = outs[0].Why
			if outs[0].Kind == OutPanic {
				why = "panic: " + e.describe(outs[0].St, outs[0].Pan) + " at " + outs[0].Why
			}
		}
		e.logf("init of %s did not complete cleanly: %d outcomes %s", path, len(outs), why)
		if len(outs) >= 1 && outs[0].St != nil && outs[0].St != st {
			// adopt resulting heap
			*st = *outs[0].St
		}
		return
	}
	if outs[0].St != st {
		*st = *outs[0].St
	}
}

func (e *Exec) initAllowed(path string) bool {
	for p := range e.InitPkgs {
		if path == p || (strings.HasSuffix(p, "/...") && strings.HasPrefix(path, strings.TrimSuffix(p, "...")) ) {
			return true
		}
	}
	return false
}

// ---------- main call entry

// CallFunction runs fn on args from state st, exploring all paths. The input state must not be used afterwards
// except through the outcomes.
func (e *Exec) CallFunction(st *State, fn *ssa.Function, args []Value, depth int) []Outcome {
	return e.callFn(st, fn, args, nil, depth, nil)
}

// runBody interprets the function body even if an intrinsic exists for it.
func (e *Exec) runBody(st *State, fn *ssa.Function, args []Value, depth int) []Outcome {
	e.noIntrinsicOnce = fn
	return e.callFn(st, fn, args, nil, depth, nil)
}

func (e *Exec) callFn(st *State, fn *ssa.Function, args []Value, env []Value, depth int, recoverable *panicRec) (outs []Outcome) {
	if depth > e.MaxDepth {
		why := "call depth exceeded at " + fn.String()
		if os.Getenv("GOSYM_ERRSTACK") != "" {
			n := len(e.callNames)
			if n > 14 {
				n = 14
			}
			why += " stack tail: " + strings.Join(e.callNames[len(e.callNames)-n:], " > ")
		}
		return []Outcome{{Kind: OutError, St: st, Why: why}}
	}
	if fn.Synthetic == "package initializer" && fn.Pkg != nil {
		if !e.initAllowed(fn.Pkg.Pkg.Path()) {
			return []Outcome{{Kind: OutReturn, St: st}}
		}
		if e.initSt[fn.Pkg] == 0 {
			e.initSt[fn.Pkg] = 2
		}
		e.logf("init %s", fn.Pkg.Pkg.Path())
	}
	// intrinsics
	skipIntr := e.noIntrinsicOnce == fn
	e.noIntrinsicOnce = nil
	if intr := e.lookupIntrinsic(st, fn); intr != nil && !skipIntr {
		return e.runIntrinsic(intr, st, fn, args, depth)
	}
	if fn.Pkg != nil && !e.builtPkgs[fn.Pkg] {
		// packages are built lazily and concurrently explored harnesses share the program: never look at a
		// function body before its package's (idempotent) build has completed
		lookupMu.Lock()
		fn.Pkg.Build()
		lookupMu.Unlock()
		e.builtPkgs[fn.Pkg] = true
	}
	if fn.Blocks == nil {
		return []Outcome{{Kind: OutError, St: st, Why: "no body for " + fn.String()}}
	}
	e.FuncsSeen[fn]++
	e.callNames = append(e.callNames, fn.String())
	if e.activeFns == nil {
		e.activeFns = map[*ssa.Function]int{}
	}
	e.activeFns[fn]++
	defer func() {
		e.callNames = e.callNames[:len(e.callNames)-1]
		e.activeFns[fn]--
	}()
	if os.Getenv("GOSYM_CALLS") != "" && depth <= 4 {
		t0 := time.Now()
		defer func() {
			fmt.Fprintf(os.Stderr, "%s %*scall %s -> %d outcomes (%.1fs, pc=%d)\n", time.Now().Format("15:04:05"), depth*2, "", fn.String(), len(outs), time.Since(t0).Seconds(), len(st.PC))
		}()
	}
	f := &Frame{fn: fn, locals: make(map[ssa.Value]Value, 32), block: fn.Blocks[0], st: st, forks: map[ssa.Instruction]int{}, depth: depth, recoverable: recoverable}
	if len(args) != len(fn.Params) {
		return []Outcome{{Kind: OutError, St: st, Why: fmt.Sprintf("arity mismatch calling %s: %d vs %d", fn, len(args), len(fn.Params))}}
	}
	for i, p := range fn.Params {
		f.locals[p] = args[i]
	}
	for i, fv := range fn.FreeVars {
		if i < len(env) {
			f.locals[fv] = env[i]
		}
	}
	basePCLen := len(st.PC)
	baseHeap := st.Heap
	_ = baseHeap
	work := []*Frame{f}
	for len(work) > 0 {
		fr := work[len(work)-1]
		work = work[:len(work)-1]
		done, more := e.runFrame(fr)
		if depth == 0 && e.inInit == false && strings.HasPrefix(fn.Name(), "VH_") {
			// finished paths of the harness entry point: their heaps are not needed any more (obligations carry their own
			// path conditions); keeping them made long case splits (C16, three operations) run out of memory
			for i := range done {
				if (done[i].Kind == OutReturn || done[i].Kind == OutPruned) && done[i].St != nil {
					done[i].St = &State{PC: done[i].St.PC, SplitTag: done[i].St.SplitTag}
				}
			}
		}
		outs = append(outs, done...)
		work = append(work, more...)
		if len(outs)+len(work) > 20000 {
			return append(outs, Outcome{Kind: OutError, St: st, Why: "path explosion in " + fn.String()})
		}
	}
	for i := range outs {
		if outs[i].Kind == OutError && strings.Count(outs[i].Why, "\n") < 12 {
			outs[i].Why += "\n      via " + fn.String()
		}
	}
	if e.Merge && len(outs) > 1 && e.mergeAllowed(fn) && !(depth == 0 && strings.HasPrefix(fn.Name(), "VH_")) {
		outs = e.mergeOutcomes(basePCLen, outs)
	}
	return outs
}

func (e *Exec) mergeAllowed(fn *ssa.Function) bool {
	if fn.Pkg == nil {
		return true
	}
	p := fn.Pkg.Pkg.Path()
	for _, np := range e.NoMergePkgs {
		if strings.HasPrefix(p, np) {
			return false
		}
	}
	return true
}

// runFrame executes a frame until it finishes or forks. It returns finished outcomes and frames still to run.
func (e *Exec) runFrame(f *Frame) (done []Outcome, more []*Frame) {
	defer func() {
		if r := recover(); r != nil {
			if ee, ok := r.(*execError); ok {
				pos := ""
				if f.block != nil && f.pc < len(f.block.Instrs) {
					pos = e.Prog.Fset.Position(f.block.Instrs[f.pc].Pos()).String()
				}
				why := fmt.Sprintf("%s [in %s %s]", ee.msg, f.fn.String(), pos)
				if os.Getenv("GOSYM_ERRSTACK") != "" {
					why += " stack: " + strings.Join(e.callNames, " > ")
				}
				done = append(done, Outcome{Kind: OutError, St: f.st, Why: why})
				more = nil
				return
			}
			if os.Getenv("GOSYM_DEBUG") == "" {
				pos := ""
				if f.block != nil && f.pc < len(f.block.Instrs) {
					pos = e.Prog.Fset.Position(f.block.Instrs[f.pc].Pos()).String()
				}
				done = append(done, Outcome{Kind: OutError, St: f.st, Why: fmt.Sprintf("internal: %v [in %s %s]", r, f.fn.String(), pos)})
				more = nil
				return
			}
			panic(r)
		}
	}()
	for {
		if f.unwinding != nil || f.runningDefers {
			// run next deferred call
			if len(f.defers) == 0 {
				if f.unwinding != nil {
					if f.unwinding.recovered {
						f.unwinding = nil
						if f.fn.Recover != nil {
							f.prev = f.block
							f.block = f.fn.Recover
							f.pc = 0
							f.runningDefers = false
							continue
						}
						return append(done, Outcome{Kind: OutReturn, St: f.st, Ret: e.zeroResults(f.fn)}), more
					}
					return append(done, Outcome{Kind: OutPanic, St: f.st, Pan: f.unwinding.val, Why: f.unwinding.where}), more
				}
				// normal RunDefers finished
				f.runningDefers = false
				f.pc++
				continue
			}
			d := f.defers[len(f.defers)-1]
			f.defers = f.defers[:len(f.defers)-1]
			outs := e.callValue(f.st, d.fn, d.args, d.method, f.depth+1, f.unwinding)
			fr, d2 := e.continueAfterCall(f, nil, outs)
			done = append(done, d2...)
			if len(fr) == 0 {
				return done, more
			}
			f = fr[0]
			more = append(more, fr[1:]...)
			continue
		}
		if f.pc >= len(f.block.Instrs) {
			unsupported("fell off block")
		}
		instr := f.block.Instrs[f.pc]
		e.Instrs++
		f.steps++
		if f.steps > 5000000 {
			unsupported("step limit exceeded")
		}
		if e.Instrs&0xfff == 0 && !e.Deadline.IsZero() && time.Now().After(e.Deadline) {
			unsupported("exploration time budget exceeded")
		}
		if e.Trace {
			fmt.Fprintf(os.Stderr, "%*s%s: %s\n", f.depth, "", f.fn.Name(), instr)
		}
		switch in := instr.(type) {
		case *ssa.Jump:
			f.prev, f.block, f.pc = f.block, f.block.Succs[0], 0
			continue
		case *ssa.If:
			c := e.get(f, in.Cond).(*Term)
			if c.Op == OpBConst {
				if c.B {
					f.prev, f.block, f.pc = f.block, f.block.Succs[0], 0
				} else {
					f.prev, f.block, f.pc = f.block, f.block.Succs[1], 0
				}
				continue
			}
			// symbolic branch
			f.forks[in]++
			if f.forks[in] > e.Unwind {
				return append(done, Outcome{Kind: OutError, St: f.st, Why: fmt.Sprintf("unwinding bound %d exceeded in %s", e.Unwind, f.fn)}), more
			}
			tOK, fOK := true, true
			// (a math function that is active more than once is recursing: its branches are decided eagerly, otherwise
			// e.g. chopPrecisionAndRound's "negative => negate and recurse" would unfold forever)
			if !(e.LazyMath && isMathFn(f.fn) && e.activeFns[f.fn] <= 1) {
				tOK, fOK = e.feasibleBoth(f.st, c)
			} else if e.inInit {
				unsupported("symbolic branch during package init")
			}
			switch {
			case tOK && fOK:
				st2 := f.st.Fork()
				f2 := f.clone(st2)
				f.st.PC = append(f.st.PC, c)
				f.prev, f.block, f.pc = f.block, f.block.Succs[0], 0
				f2.st.PC = append(f2.st.PC, e.TS.Not(c))
				f2.prev, f2.block, f2.pc = f2.block, f2.block.Succs[1], 0
				more = append(more, f2)
				continue
			case tOK:
				f.st.PC = append(f.st.PC, c)
				f.prev, f.block, f.pc = f.block, f.block.Succs[0], 0
				continue
			case fOK:
				f.st.PC = append(f.st.PC, e.TS.Not(c))
				f.prev, f.block, f.pc = f.block, f.block.Succs[1], 0
				continue
			default:
				return append(done, Outcome{Kind: OutPruned, St: f.st, Why: "infeasible"}), more
			}
		case *ssa.Return:
			var ret Value
			switch len(in.Results) {
			case 0:
				ret = nil
			case 1:
				ret = e.get(f, in.Results[0])
			default:
				t := make(Tuple, len(in.Results))
				for i, r := range in.Results {
					t[i] = e.get(f, r)
				}
				ret = t
			}
			return append(done, Outcome{Kind: OutReturn, St: f.st, Ret: ret}), more
		case *ssa.Panic:
			v := e.get(f, in.X)
			f.unwinding = &panicRec{val: v, where: f.fn.String() + " " + e.Prog.Fset.Position(in.Pos()).String()}
			continue
		case *ssa.RunDefers:
			if len(f.defers) == 0 {
				f.pc++
				continue
			}
			f.runningDefers = true
			continue
		case *ssa.Defer:
			fnv, args, method := e.prepareCall(f, &in.Call)
			f.defers = append(f.defers, deferred{fn: fnv, args: args, method: method})
			f.pc++
			continue
		case *ssa.Go:
			unsupported("go statement")
		case *ssa.Call:
			if b, ok := in.Call.Value.(*ssa.Builtin); ok && b.Name() == "recover" {
				if f.recoverable != nil && !f.recoverable.recovered {
					f.recoverable.recovered = true
					v := f.recoverable.val
					if _, isI := v.(Iface); !isI {
						v = Iface{T: types.Typ[types.String], V: v}
					}
					f.locals[in] = v
				} else {
					f.locals[in] = Iface{}
				}
				f.pc++
				continue
			}
			fnv, args, method := e.prepareCall(f, &in.Call)
			outs := e.callValue(f.st, fnv, args, method, f.depth+1, nil)
			for i := range outs {
				if outs[i].Kind == OutPanic && outs[i].Why == "" {
					outs[i].Why = f.fn.String() + " " + e.Prog.Fset.Position(in.Pos()).String()
				}
			}
			if e.inInit && (f.fn.Synthetic == "package initializer" || strings.HasPrefix(f.fn.Name(), "init#")) {
				for i := range outs {
					if outs[i].Kind == OutPanic {
						outs[i] = Outcome{Kind: OutError, St: outs[i].St, Why: "panic " + e.describe(outs[i].St, outs[i].Pan) + " at " + outs[i].Why}
					}
					if outs[i].Kind == OutError {
						e.logf("init: tolerated failure: %s", strings.SplitN(outs[i].Why, "\n", 2)[0])
						outs[i] = Outcome{Kind: OutReturn, St: outs[i].St, Ret: UnknownVal{Why: "init: " + strings.SplitN(outs[i].Why, "\n", 2)[0]}}
					}
				}
			}
			fr, d2 := e.continueAfterCall(f, in, outs)
			done = append(done, d2...)
			if len(fr) == 0 {
				return done, more
			}
			f = fr[0]
			more = append(more, fr[1:]...)
			continue
		default:
			e.step(f, instr)
			f.pc++
		}
	}
}

func (e *Exec) zeroResults(fn *ssa.Function) Value {
	res := fn.Signature.Results()
	switch res.Len() {
	case 0:
		return nil
	case 1:
		return e.zero(res.At(0).Type())
	}
	t := make(Tuple, res.Len())
	for i := range t {
		t[i] = e.zero(res.At(i).Type())
	}
	return t
}

// continueAfterCall distributes callee outcomes over (clones of) the calling frame.
func (e *Exec) continueAfterCall(f *Frame, call *ssa.Call, outs []Outcome) (frames []*Frame, done []Outcome) {
	var usable []Outcome
	for _, o := range outs {
		switch o.Kind {
		case OutPruned, OutError:
			done = append(done, o)
		default:
			usable = append(usable, o)
		}
	}
	for i, o := range usable {
		var nf *Frame
		if i == len(usable)-1 {
			nf = f
			nf.st = o.St
		} else {
			nf = f.clone(o.St)
		}
		if o.Kind == OutPanic {
			nf.unwinding = &panicRec{val: o.Pan, where: o.Why}
			nf.runningDefers = false
		} else if call != nil {
			nf.locals[call] = o.Ret
			nf.pc++
		}
		frames = append(frames, nf)
	}
	return
}

// prepareCall evaluates function and arguments of a call.
func (e *Exec) prepareCall(f *Frame, c *ssa.CallCommon) (fn Value, args []Value, method *types.Func) {
	if c.IsInvoke() {
		recv := e.get(f, c.Value)
		args = append(args, recv)
		for _, a := range c.Args {
			args = append(args, e.get(f, a))
		}
		return nil, args, c.Method
	}
	fn = e.get(f, c.Value)
	for _, a := range c.Args {
		args = append(args, e.get(f, a))
	}
	return fn, args, nil
}

// callValue calls a function value (static function, closure, builtin, or interface method).
func (e *Exec) callValue(st *State, fnv Value, args []Value, method *types.Func, depth int, unwinding *panicRec) []Outcome {
	defer func() {
		// convert engine errors in argument handling into outcomes: handled by caller's recover
	}()
	if method != nil {
		recv, ok := args[0].(Iface)
		if !ok {
			if u, isU := args[0].(UnknownVal); isU {
				return []Outcome{{Kind: OutError, St: st, Why: "invoke on unknown value: " + u.Why}}
			}
			unsupported("invoke on non-interface %T", args[0])
		}
		if recv.T == nil {
			return []Outcome{{Kind: OutPanic, St: st, Pan: e.runtimeError("nil pointer dereference (invoke " + method.Name() + " on nil interface)")}}
		}
		if hook := e.invokeHook(st, recv, method, args[1:], depth); hook != nil {
			return hook
		}
		m := e.Prog.LookupMethod(recv.T, method.Pkg(), method.Name())
		if m == nil {
			unsupported("method %s not found on %v", method.Name(), recv.T)
		}
		nargs := append([]Value{recv.V}, args[1:]...)
		return e.callFn(st, m, nargs, nil, depth, unwinding)
	}
	switch fn := fnv.(type) {
	case *ssa.Function:
		return e.callFn(st, fn, args, nil, depth, unwinding)
	case *Closure:
		return e.callFn(st, fn.Fn, args, fn.Env, depth, unwinding)
	case *ssa.Builtin:
		return e.callBuiltin(st, fn, args, unwinding)
	case nil:
		return []Outcome{{Kind: OutPanic, St: st, Pan: e.runtimeError("call of nil function")}}
	case UnknownVal:
		return []Outcome{{Kind: OutError, St: st, Why: "call of unknown function value: " + fn.Why}}
	}
	unsupported("call of %T", fnv)
	return nil
}

// runtimeError builds a panic value standing for a Go runtime error.
func (e *Exec) runtimeError(msg string) Value {
	return Iface{T: runtimeErrorType, V: "runtime error: " + msg}
}

var runtimeErrorType = types.NewNamed(types.NewTypeName(token.NoPos, nil, "runtimeError", nil), types.Typ[types.String], nil)

func ret1(st *State, v Value) []Outcome { return []Outcome{{Kind: OutReturn, St: st, Ret: v}} }

// describe renders a value for messages.
func (e *Exec) describe(st *State, v Value) string {
	switch x := v.(type) {
	case Iface:
		if x.T == nil {
			return "nil"
		}
		return fmt.Sprintf("%s(%s)", x.T.String(), e.describe(st, x.V))
	case string:
		return fmt.Sprintf("%q", x)
	case *Term:
		return x.String()
	case Ptr:
		if x.Obj == 0 {
			return "nil"
		}
		if st != nil {
			if inner, err := st.Heap.Load(x); err == nil {
				return "&" + e.describe(nil, inner)
			}
		}
		return fmt.Sprintf("ptr(%d%s)", x.Obj, x.Path)
	case *Agg:
		parts := []string{}
		for i, el := range x.Elems {
			if i > 6 {
				parts = append(parts, "...")
				break
			}
			parts = append(parts, e.describe(st, el))
		}
		return "{" + strings.Join(parts, ", ") + "}"
	}
	return fmt.Sprintf("%T", v)
}

// isMathFn: functions of the pure arithmetic packages, whose branch outcomes merge at return; with LazyMath their
// symbolic branches are explored on both sides without a feasibility query.
func isMathFn(fn *ssa.Function) bool {
	for fn.Parent() != nil {
		fn = fn.Parent()
	}
	if fn.Pkg == nil {
		if o := fn.Origin(); o != nil && o.Pkg != nil {
			fn = o
		} else {
			return false
		}
	}
	switch fn.Pkg.Pkg.Path() {
	case "cosmossdk.io/math", "github.com/osmosis-labs/osmosis/osmomath", "math/big", "math/bits":
		return true
	}
	return false
}

// noteUninitGlobal records a use of a package-level variable that its package's initialiser assigns, when that
// initialiser was not interpreted (the package is not in the props file's init list): the variable is then zero here but
// not in the real program, so every verdict that depends on it is suspect. Reported as an inconclusive item.
func (e *Exec) noteUninitGlobal(g *ssa.Global) {
	if g.Pkg == nil || e.inInit {
		return
	}
	path := g.Pkg.Pkg.Path()
	if e.initAllowed(path) {
		return
	}
	if e.initStores == nil {
		e.initStores = map[*ssa.Package]map[*ssa.Global]bool{}
	}
	set, ok := e.initStores[g.Pkg]
	if !ok {
		set = map[*ssa.Global]bool{}
		lookupMu.Lock()
		g.Pkg.Build()
		lookupMu.Unlock()
		for name, m := range g.Pkg.Members {
			fn, isFn := m.(*ssa.Function)
			if !isFn || !strings.HasPrefix(name, "init") {
				continue
			}
			for _, b := range fn.Blocks {
				for _, in := range b.Instrs {
					if st, ok := in.(*ssa.Store); ok {
						if gg, ok := st.Addr.(*ssa.Global); ok {
							set[gg] = true
						}
					}
				}
			}
		}
		e.initStores[g.Pkg] = set
	}
	if set[g] {
		if e.UninitReads == nil {
			e.UninitReads = map[string]string{}
		}
		e.UninitReads[g.String()] = path
	}
}
