package sym

import (
	"fmt"
	"os"
	"math/big"
	"math/rand"
	"strings"
)

// FreshDef records how a fresh definitional variable is computed from its operands, so that concrete
// assignments of the harness inputs can be extended to the whole formula without a solver.
type FreshDef struct {
	Kind string
	Args []*Term
}

// Probe searches for a satisfying assignment of the obligation's asserts by evaluating them on concrete
// candidate inputs (boundary and random values inside the variables' intervals). It is only a counterexample
// finder for queries the solvers could not decide: a hit is a genuine model (every assert evaluates to true),
// a miss proves nothing.
func Probe(ob *Obligation, tries int, seed int64) *Model {
	rng := rand.New(rand.NewSource(seed))
	consts := mineConstants(ob.Asserts, 96)
	var free []*Term
	for _, v := range ob.Vars {
		if _, isFresh := ob.FreshDefs[v.Name]; !isFresh {
			free = append(free, v)
		}
	}
	for t := 0; t < tries; t++ {
		m := &Model{Ints: map[string]*big.Int{}, Bools: map[string]bool{}}
		for _, v := range free {
			if v.Sort == SBool {
				m.Bools[v.Name] = rng.Intn(2) == 0
				continue
			}
			if len(consts) > 0 && rng.Intn(3) == 0 {
				// a constant of the formula, or a close neighbour: boundaries of the code's own case splits
				c := new(big.Int).Set(consts[rng.Intn(len(consts))])
				switch rng.Intn(5) {
				case 0:
					c.Add(c, big.NewInt(1))
				case 1:
					c.Sub(c, big.NewInt(1))
				case 2:
					c.Add(c, new(big.Int).Rand(rng, new(big.Int).Add(new(big.Int).Abs(c), big.NewInt(2))))
				}
				if (v.Lo == nil || c.Cmp(v.Lo) >= 0) && (v.Hi == nil || c.Cmp(v.Hi) <= 0) {
					m.Ints[v.Name] = c
					continue
				}
			}
			m.Ints[v.Name] = pickValue(rng, v, t)
		}
		if !extendModel(ob, m) {
			if os.Getenv("GOSYM_PROBE") != "" && t == 0 {
				fmt.Fprintf(os.Stderr, "probe %s/%s: cannot extend model\n", ob.Harness, ob.Label)
			}
			continue
		}
		ok := true
		nfail := 0
		for _, a := range ob.Asserts {
			if _, b := Eval(a, m.Ints, m.Bools); !b {
				ok = false
				nfail++
				if os.Getenv("GOSYM_PROBE") != "" && t < 2 && nfail <= 3 && hasVar(ob, os.Getenv("GOSYM_PROBE")) {
					fmt.Fprintf(os.Stderr, "probe %s/%s try %d: failing assert %s\n", ob.Harness, ob.Label, t, truncate(a.String(), 300))
				}
			}
		}
		if ok {
			return m
		}
	}
	return nil
}

func pickValue(rng *rand.Rand, v *Term, t int) *big.Int {
	lo, hi := v.Lo, v.Hi
	if lo == nil && hi == nil {
		lo, hi = new(big.Int).Neg(new(big.Int).Lsh(big.NewInt(1), 128)), new(big.Int).Lsh(big.NewInt(1), 128)
	} else if lo == nil {
		lo = new(big.Int).Sub(hi, new(big.Int).Lsh(big.NewInt(1), 128))
	} else if hi == nil {
		hi = new(big.Int).Add(lo, new(big.Int).Lsh(big.NewInt(1), 128))
	}
	span := new(big.Int).Sub(hi, lo)
	if span.Sign() <= 0 {
		return new(big.Int).Set(lo)
	}
	switch rng.Intn(8) {
	case 0:
		return new(big.Int).Set(lo)
	case 1:
		return new(big.Int).Set(hi)
	case 2:
		return new(big.Int).Add(lo, big.NewInt(1))
	case 3:
		return new(big.Int).Sub(hi, big.NewInt(1))
	case 4:
		// small magnitude around zero if allowed
		c := big.NewInt(int64(rng.Intn(7) - 3))
		if c.Cmp(lo) >= 0 && c.Cmp(hi) <= 0 {
			return c
		}
		fallthrough
	case 5:
		// random bit length
		bl := rng.Intn(span.BitLen()) + 1
		r := new(big.Int).Rand(rng, new(big.Int).Lsh(big.NewInt(1), uint(bl)))
		r.Add(r, lo)
		if r.Cmp(hi) > 0 {
			r.Set(hi)
		}
		return r
	default:
		r := new(big.Int).Rand(rng, new(big.Int).Add(span, big.NewInt(1)))
		return r.Add(r, lo)
	}
}

// extendModel computes the fresh definitional variables from their operands (iterating to a fixed point).
func extendModel(ob *Obligation, m *Model) bool {
	pending := map[string]*FreshDef{}
	for _, v := range ob.Vars {
		if d, ok := ob.FreshDefs[v.Name]; ok {
			pending[v.Name] = d
		}
	}
	for rounds := 0; len(pending) > 0 && rounds < 64; rounds++ {
		progress := false
		for name, d := range pending {
			ready := true
			for _, a := range d.Args {
				for _, av := range VarsOf([]*Term{a}) {
					if _, isFresh := ob.FreshDefs[av.Name]; isFresh {
						if _, done := m.Ints[av.Name]; !done {
							ready = false
						}
					}
				}
			}
			if !ready {
				continue
			}
			vals := make([]*big.Int, len(d.Args))
			for i, a := range d.Args {
				vals[i], _ = Eval(a, m.Ints, m.Bools)
			}
			var r *big.Int
			switch d.Kind {
			case "absquo", "absrem":
				if vals[1].Sign() == 0 {
					r = new(big.Int)
				} else {
					q, rem := new(big.Int).QuoRem(new(big.Int).Abs(vals[0]), new(big.Int).Abs(vals[1]), new(big.Int))
					if d.Kind == "absquo" {
						r = q
					} else {
						r = rem
					}
				}
			case "sqrt":
				if vals[0].Sign() < 0 {
					r = new(big.Int)
				} else {
					r = new(big.Int).Sqrt(vals[0])
				}
			case "bitlen":
				r = big.NewInt(int64(vals[0].BitLen()))
			default:
				return false
			}
			m.Ints[name] = r
			delete(pending, name)
			progress = true
		}
		if !progress {
			return false
		}
	}
	// other fresh variables (opaque strings etc.) cannot be reconstructed
	for _, v := range ob.Vars {
		if strings.Contains(v.Name, "!") {
			if _, ok := m.Ints[v.Name]; !ok && v.Sort == SInt {
				if _, isDef := ob.FreshDefs[v.Name]; !isDef {
					return false
				}
			}
		}
	}
	return len(pending) == 0
}

func hasVar(ob *Obligation, name string) bool {
	for _, v := range ob.Vars {
		if v.Name == name {
			return true
		}
	}
	return false
}

// mineConstants collects distinct integer constants occurring in the terms.
func mineConstants(ts []*Term, max int) []*big.Int {
	seen := map[int]bool{}
	vals := map[string]bool{}
	var out []*big.Int
	var walk func(t *Term)
	walk = func(t *Term) {
		if seen[t.id] || len(out) >= max {
			return
		}
		seen[t.id] = true
		if t.Op == OpConst {
			k := t.Val.String()
			if !vals[k] {
				vals[k] = true
				out = append(out, t.Val)
			}
		}
		for _, a := range t.Args {
			walk(a)
		}
	}
	for _, t := range ts {
		walk(t)
	}
	return out
}
