package sym

import (
	"fmt"
	"math/big"
	"sort"
	"strings"
)

// Sort of an SMT term.
type Sort int

const (
	SInt Sort = iota
	SBool
)

type Op int

const (
	OpConst Op = iota // Int constant (Val)
	OpBConst          // Bool constant (B)
	OpVar             // variable (Name, Sort)
	OpAdd
	OpMul
	OpNeg
	OpDiv // SMT (euclidean) div, divisor must be nonzero constant
	OpMod // SMT mod, divisor must be nonzero constant
	OpIte
	OpEq // Int = Int
	OpLe
	OpLt
	OpAnd
	OpOr
	OpNot
	OpIff // Bool = Bool
)

// Term is an immutable hash-consed SMT term.
type Term struct {
	Op   Op
	Sort Sort
	Args []*Term
	Val  *big.Int
	B    bool
	Name string
	id   int
	// conservative interval for Int terms; nil = unbounded on that side
	Lo, Hi *big.Int
	size   int
}

func (t *Term) IsConst() bool  { return t.Op == OpConst }
func (t *Term) IsBConst() bool { return t.Op == OpBConst }
func (t *Term) ID() int        { return t.id }

// Store interns terms.
type Store struct {
	tab    map[string]*Term
	next   int
	fresh  int
	Vars   []*Term
	varTab map[string]*Term
}

func NewStore() *Store {
	return &Store{tab: map[string]*Term{}, varTab: map[string]*Term{}}
}

func (s *Store) key(op Op, sort Sort, args []*Term, val *big.Int, b bool, name string) string {
	var sb strings.Builder
	fmt.Fprintf(&sb, "%d:%d:", op, sort)
	for _, a := range args {
		fmt.Fprintf(&sb, "%d,", a.id)
	}
	if val != nil {
		sb.WriteString(val.Text(62))
	}
	if b {
		sb.WriteString("T")
	}
	sb.WriteString(":" + name)
	return sb.String()
}

func (s *Store) mk(op Op, sort Sort, args []*Term, val *big.Int, b bool, name string) *Term {
	k := s.key(op, sort, args, val, b, name)
	if t, ok := s.tab[k]; ok {
		return t
	}
	s.next++
	t := &Term{Op: op, Sort: sort, Args: args, Val: val, B: b, Name: name, id: s.next}
	t.size = 1
	for _, a := range args {
		t.size += a.size
		if t.size > 1<<30 {
			t.size = 1 << 30
		}
	}
	s.computeInterval(t)
	if t.Sort == SInt && t.Op != OpConst && t.Lo != nil && t.Hi != nil && t.Lo.Cmp(t.Hi) == 0 {
		// the interval pins the value: it is a constant
		c := s.Int(t.Lo)
		s.tab[k] = c
		return c
	}
	s.tab[k] = t
	return t
}

func bmin(a, b *big.Int) *big.Int {
	if a == nil || b == nil {
		return nil
	}
	if a.Cmp(b) < 0 {
		return a
	}
	return b
}
func bmax(a, b *big.Int) *big.Int {
	if a == nil || b == nil {
		return nil
	}
	if a.Cmp(b) > 0 {
		return a
	}
	return b
}

func (s *Store) computeInterval(t *Term) {
	if t.Sort != SInt {
		return
	}
	switch t.Op {
	case OpConst:
		t.Lo, t.Hi = t.Val, t.Val
	case OpAdd:
		lo, hi := new(big.Int), new(big.Int)
		for _, a := range t.Args {
			if lo != nil {
				if a.Lo == nil {
					lo = nil
				} else {
					lo.Add(lo, a.Lo)
				}
			}
			if hi != nil {
				if a.Hi == nil {
					hi = nil
				} else {
					hi.Add(hi, a.Hi)
				}
			}
		}
		t.Lo, t.Hi = lo, hi
	case OpNeg:
		a := t.Args[0]
		if a.Hi != nil {
			t.Lo = new(big.Int).Neg(a.Hi)
		}
		if a.Lo != nil {
			t.Hi = new(big.Int).Neg(a.Lo)
		}
	case OpMul:
		// only handle fully bounded operands
		lo, hi := big.NewInt(1), big.NewInt(1)
		for _, a := range t.Args {
			if a.Lo == nil || a.Hi == nil {
				// special: nonneg * nonneg >= 0
				allNonNeg := true
				for _, b := range t.Args {
					if b.Lo == nil || b.Lo.Sign() < 0 {
						allNonNeg = false
					}
				}
				if allNonNeg {
					t.Lo = new(big.Int)
				}
				return
			}
			c := []*big.Int{new(big.Int).Mul(lo, a.Lo), new(big.Int).Mul(lo, a.Hi), new(big.Int).Mul(hi, a.Lo), new(big.Int).Mul(hi, a.Hi)}
			lo, hi = c[0], c[0]
			for _, x := range c[1:] {
				if x.Cmp(lo) < 0 {
					lo = x
				}
				if x.Cmp(hi) > 0 {
					hi = x
				}
			}
		}
		t.Lo, t.Hi = lo, hi
	case OpMod:
		d := new(big.Int).Abs(t.Args[1].Val)
		t.Lo = new(big.Int)
		t.Hi = d.Sub(d, big.NewInt(1))
	case OpDiv:
		a, d := t.Args[0], t.Args[1].Val
		if d.Sign() > 0 {
			if a.Lo != nil {
				t.Lo = floorDiv(a.Lo, d)
			}
			if a.Hi != nil {
				t.Hi = floorDiv(a.Hi, d)
			}
		}
	case OpIte:
		t.Lo = bmin(t.Args[1].Lo, t.Args[2].Lo)
		t.Hi = bmax(t.Args[1].Hi, t.Args[2].Hi)
	}
}

func floorDiv(a, d *big.Int) *big.Int {
	q, m := new(big.Int).DivMod(a, d, new(big.Int))
	_ = m
	return q // DivMod is euclidean: for d>0 this is floor
}

// ---- constructors

func (s *Store) Int(v *big.Int) *Term {
	return s.mk(OpConst, SInt, nil, new(big.Int).Set(v), false, "")
}
func (s *Store) Int64(v int64) *Term { return s.Int(big.NewInt(v)) }
func (s *Store) Uint64(v uint64) *Term {
	return s.Int(new(big.Int).SetUint64(v))
}
func (s *Store) Bool(b bool) *Term { return s.mk(OpBConst, SBool, nil, nil, b, "") }

// Var returns the variable with this name (created on first use).
func (s *Store) Var(name string, sort Sort) *Term {
	if t, ok := s.varTab[name]; ok {
		return t
	}
	t := s.mk(OpVar, sort, nil, nil, false, name)
	s.varTab[name] = t
	s.Vars = append(s.Vars, t)
	return t
}

// BoundedVar creates a variable with a known interval (for machine integers).
func (s *Store) BoundedVar(name string, lo, hi *big.Int) *Term {
	if t, ok := s.varTab[name]; ok {
		return t
	}
	s.next++
	t := &Term{Op: OpVar, Sort: SInt, Name: name, id: s.next, Lo: lo, Hi: hi, size: 1}
	s.tab[s.key(OpVar, SInt, nil, nil, false, name)] = t
	s.varTab[name] = t
	s.Vars = append(s.Vars, t)
	return t
}

func (s *Store) Fresh(prefix string, sort Sort) *Term {
	s.fresh++
	return s.Var(fmt.Sprintf("%s!%d", prefix, s.fresh), sort)
}

func (s *Store) FreshBounded(prefix string, lo, hi *big.Int) *Term {
	s.fresh++
	return s.BoundedVar(fmt.Sprintf("%s!%d", prefix, s.fresh), lo, hi)
}

func (s *Store) Add(args ...*Term) *Term {
	var flat []*Term
	c := new(big.Int)
	for _, a := range args {
		if a.Op == OpAdd {
			for _, b := range a.Args {
				if b.Op == OpConst {
					c.Add(c, b.Val)
				} else {
					flat = append(flat, b)
				}
			}
		} else if a.Op == OpConst {
			c.Add(c, a.Val)
		} else {
			flat = append(flat, a)
		}
	}
	// cancel x and -x
	if len(flat) > 1 {
		cnt := map[int]int{}
		rep := map[int]*Term{}
		var order []int
		for _, f := range flat {
			base, sign := f, 1
			if f.Op == OpNeg {
				base, sign = f.Args[0], -1
			}
			if _, ok := cnt[base.id]; !ok {
				order = append(order, base.id)
				rep[base.id] = base
			}
			cnt[base.id] += sign
		}
		flat = flat[:0:0]
		for _, id := range order {
			n := cnt[id]
			b := rep[id]
			switch {
			case n == 0:
			case n == 1:
				flat = append(flat, b)
			case n == -1:
				flat = append(flat, s.Neg(b))
			default:
				flat = append(flat, s.Mul(s.Int64(int64(n)), b))
			}
		}
	}
	if len(flat) == 0 {
		return s.Int(c)
	}
	if len(flat) == 1 && c.Sign() != 0 && flat[0].Op == OpIte && isConstTree(flat[0], 6) {
		cc := new(big.Int).Set(c)
		return s.mapLeaves(flat[0], func(v *big.Int) *big.Int { return new(big.Int).Add(v, cc) })
	}
	sort.SliceStable(flat, func(i, j int) bool { return flat[i].id < flat[j].id })
	if c.Sign() != 0 {
		flat = append(flat, s.Int(c))
	}
	if len(flat) == 1 {
		return flat[0]
	}
	return s.mk(OpAdd, SInt, flat, nil, false, "")
}

func (s *Store) Neg(a *Term) *Term {
	switch a.Op {
	case OpConst:
		return s.Int(new(big.Int).Neg(a.Val))
	case OpNeg:
		return a.Args[0]
	case OpAdd:
		args := make([]*Term, len(a.Args))
		for i, x := range a.Args {
			args[i] = s.Neg(x)
		}
		return s.Add(args...)
	case OpMul:
		if a.Args[len(a.Args)-1].Op == OpConst {
			// constant is kept last
			n := len(a.Args)
			args := append([]*Term{}, a.Args[:n-1]...)
			args = append(args, s.Int(new(big.Int).Neg(a.Args[n-1].Val)))
			return s.Mul(args...)
		}
	case OpIte:
		if a.Args[1].Op == OpConst && a.Args[2].Op == OpConst {
			return s.Ite(a.Args[0], s.Neg(a.Args[1]), s.Neg(a.Args[2]))
		}
	}
	return s.mk(OpNeg, SInt, []*Term{a}, nil, false, "")
}

func (s *Store) Sub(a, b *Term) *Term { return s.Add(a, s.Neg(b)) }

func (s *Store) Mul(args ...*Term) *Term {
	var flat []*Term
	c := big.NewInt(1)
	neg := false
	for _, a := range args {
		switch a.Op {
		case OpMul:
			for _, b := range a.Args {
				if b.Op == OpConst {
					c.Mul(c, b.Val)
				} else {
					flat = append(flat, b)
				}
			}
		case OpConst:
			c.Mul(c, a.Val)
		case OpNeg:
			neg = !neg
			if a.Args[0].Op == OpMul {
				for _, b := range a.Args[0].Args {
					if b.Op == OpConst {
						c.Mul(c, b.Val)
					} else {
						flat = append(flat, b)
					}
				}
			} else {
				flat = append(flat, a.Args[0])
			}
		default:
			flat = append(flat, a)
		}
	}
	if neg {
		c.Neg(c)
	}
	if c.Sign() == 0 {
		return s.Int64(0)
	}
	if len(flat) == 0 {
		return s.Int(c)
	}
	sort.SliceStable(flat, func(i, j int) bool { return flat[i].id < flat[j].id })
	one := c.Cmp(big.NewInt(1)) == 0
	mone := c.Cmp(big.NewInt(-1)) == 0
	if len(flat) == 1 {
		f := flat[0]
		if one {
			return f
		}
		if mone {
			return s.Neg(f)
		}
		// distribute constants over ite-of-constants to keep things simple
		if f.Op == OpIte && f.Args[1].Op == OpConst && f.Args[2].Op == OpConst {
			return s.Ite(f.Args[0], s.Int(new(big.Int).Mul(c, f.Args[1].Val)), s.Int(new(big.Int).Mul(c, f.Args[2].Val)))
		}
	}
	if mone {
		var inner *Term
		if len(flat) == 1 {
			inner = flat[0]
		} else {
			inner = s.mk(OpMul, SInt, flat, nil, false, "")
		}
		return s.mk(OpNeg, SInt, []*Term{inner}, nil, false, "")
	}
	if !one {
		flat = append(flat, s.Int(c))
	}
	return s.mk(OpMul, SInt, flat, nil, false, "")
}

// DivC is SMT (floor for positive divisor) division by a nonzero constant.
func (s *Store) DivC(a *Term, d *big.Int) *Term {
	if d.Sign() == 0 {
		panic("DivC by zero")
	}
	if a.Op == OpConst {
		q := new(big.Int)
		q.DivMod(a.Val, d, new(big.Int))
		return s.Int(q)
	}
	if d.Cmp(big.NewInt(1)) == 0 {
		return a
	}
	return s.mk(OpDiv, SInt, []*Term{a, s.Int(d)}, nil, false, "")
}

func (s *Store) ModC(a *Term, d *big.Int) *Term {
	if d.Sign() == 0 {
		panic("ModC by zero")
	}
	if a.Op == OpConst {
		m := new(big.Int)
		new(big.Int).DivMod(a.Val, d, m)
		return s.Int(m)
	}
	if new(big.Int).Abs(d).Cmp(big.NewInt(1)) == 0 {
		return s.Int64(0)
	}
	return s.mk(OpMod, SInt, []*Term{a, s.Int(d)}, nil, false, "")
}

func (s *Store) Ite(c, a, b *Term) *Term {
	if c.Op == OpBConst {
		if c.B {
			return a
		}
		return b
	}
	if a == b {
		return a
	}
	if a.Sort == SBool {
		// encode boolean ite with and/or
		if a.Op == OpBConst && b.Op == OpBConst {
			if a.B {
				return c // ite(c,true,false)
			}
			return s.Not(c)
		}
		return s.Or(s.And(c, a), s.And(s.Not(c), b))
	}
	if c.Op == OpNot {
		return s.Ite(c.Args[0], b, a)
	}
	// pull out summands common to both branches: ite(c, x+p, x+q) = x + ite(c, p, q)
	if a.Sort == SInt && (a.Op == OpAdd || b.Op == OpAdd || a.Op == OpVar || b.Op == OpVar) {
		as, bs := summands(a), summands(b)
		if len(as) <= 8 && len(bs) <= 8 {
			var common, ra, rb []*Term
			usedB := make([]bool, len(bs))
			for _, x := range as {
				found := false
				if x.Op != OpConst {
					for j, y := range bs {
						if !usedB[j] && x == y {
							usedB[j] = true
							found = true
							break
						}
					}
				}
				if found {
					common = append(common, x)
				} else {
					ra = append(ra, x)
				}
			}
			for j, y := range bs {
				if !usedB[j] {
					rb = append(rb, y)
				}
			}
			if len(common) > 0 {
				inner := s.Ite(c, s.Add(ra...), s.Add(rb...))
				return s.Add(append(common, inner)...)
			}
		}
	}
	return s.mk(OpIte, a.Sort, []*Term{c, a, b}, nil, false, "")
}

func summands(t *Term) []*Term {
	if t.Op == OpAdd {
		return t.Args
	}
	return []*Term{t}
}

// isConstTree reports whether t is a constant or an ite whose leaves are all constants (bounded depth).
func isConstTree(t *Term, depth int) bool {
	if t.Op == OpConst {
		return true
	}
	if t.Op == OpIte && depth > 0 {
		return isConstTree(t.Args[1], depth-1) && isConstTree(t.Args[2], depth-1)
	}
	return false
}

func (s *Store) mapLeaves(t *Term, f func(*big.Int) *big.Int) *Term {
	if t.Op == OpConst {
		return s.Int(f(t.Val))
	}
	return s.Ite(t.Args[0], s.mapLeaves(t.Args[1], f), s.mapLeaves(t.Args[2], f))
}

func (s *Store) cmpFold(a, b *Term, op Op) (*Term, bool) {
	if a.Op == OpConst && b.Op == OpConst {
		c := a.Val.Cmp(b.Val)
		switch op {
		case OpEq:
			return s.Bool(c == 0), true
		case OpLe:
			return s.Bool(c <= 0), true
		case OpLt:
			return s.Bool(c < 0), true
		}
	}
	if b.Op == OpConst && a.Op == OpIte && isConstTree(a, 6) {
		return s.Ite(a.Args[0], s.cmp(a.Args[1], b, op), s.cmp(a.Args[2], b, op)), true
	}
	if a.Op == OpConst && b.Op == OpIte && isConstTree(b, 6) {
		return s.Ite(b.Args[0], s.cmp(a, b.Args[1], op), s.cmp(a, b.Args[2], op)), true
	}
	// lift over ite when the other side is constant and ite has a constant branch
	if b.Op == OpConst && a.Op == OpIte && (a.Args[1].Op == OpConst || a.Args[2].Op == OpConst) {
		return s.Ite(a.Args[0], s.cmp(a.Args[1], b, op), s.cmp(a.Args[2], b, op)), true
	}
	if a.Op == OpConst && b.Op == OpIte && (b.Args[1].Op == OpConst || b.Args[2].Op == OpConst) {
		return s.Ite(b.Args[0], s.cmp(a, b.Args[1], op), s.cmp(a, b.Args[2], op)), true
	}
	// interval reasoning
	switch op {
	case OpLe:
		if a.Hi != nil && b.Lo != nil && a.Hi.Cmp(b.Lo) <= 0 {
			return s.Bool(true), true
		}
		if a.Lo != nil && b.Hi != nil && a.Lo.Cmp(b.Hi) > 0 {
			return s.Bool(false), true
		}
	case OpLt:
		if a.Hi != nil && b.Lo != nil && a.Hi.Cmp(b.Lo) < 0 {
			return s.Bool(true), true
		}
		if a.Lo != nil && b.Hi != nil && a.Lo.Cmp(b.Hi) >= 0 {
			return s.Bool(false), true
		}
	case OpEq:
		if a.Hi != nil && b.Lo != nil && a.Hi.Cmp(b.Lo) < 0 {
			return s.Bool(false), true
		}
		if a.Lo != nil && b.Hi != nil && a.Lo.Cmp(b.Hi) > 0 {
			return s.Bool(false), true
		}
	}
	return nil, false
}

func (s *Store) cmp(a, b *Term, op Op) *Term {
	if a == b {
		return s.Bool(op != OpLt)
	}
	if t, ok := s.cmpFold(a, b, op); ok {
		return t
	}
	if op == OpEq && a.id > b.id {
		a, b = b, a
	}
	return s.mk(op, SBool, []*Term{a, b}, nil, false, "")
}

func (s *Store) Eq(a, b *Term) *Term {
	if a.Sort == SBool {
		return s.Iff(a, b)
	}
	return s.cmp(a, b, OpEq)
}
func (s *Store) Le(a, b *Term) *Term { return s.cmp(a, b, OpLe) }
func (s *Store) Lt(a, b *Term) *Term { return s.cmp(a, b, OpLt) }
func (s *Store) Ge(a, b *Term) *Term { return s.cmp(b, a, OpLe) }
func (s *Store) Gt(a, b *Term) *Term { return s.cmp(b, a, OpLt) }
func (s *Store) Ne(a, b *Term) *Term { return s.Not(s.Eq(a, b)) }

func (s *Store) Iff(a, b *Term) *Term {
	if a == b {
		return s.Bool(true)
	}
	if a.Op == OpBConst {
		if a.B {
			return b
		}
		return s.Not(b)
	}
	if b.Op == OpBConst {
		if b.B {
			return a
		}
		return s.Not(a)
	}
	if a.id > b.id {
		a, b = b, a
	}
	return s.mk(OpIff, SBool, []*Term{a, b}, nil, false, "")
}

func (s *Store) Not(a *Term) *Term {
	switch a.Op {
	case OpBConst:
		return s.Bool(!a.B)
	case OpNot:
		return a.Args[0]
	case OpLe:
		return s.cmp(a.Args[1], a.Args[0], OpLt)
	case OpLt:
		return s.cmp(a.Args[1], a.Args[0], OpLe)
	}
	return s.mk(OpNot, SBool, []*Term{a}, nil, false, "")
}

func (s *Store) And(args ...*Term) *Term {
	var flat []*Term
	seen := map[int]bool{}
	for _, a := range args {
		var parts []*Term
		if a.Op == OpAnd {
			parts = a.Args
		} else {
			parts = []*Term{a}
		}
		for _, p := range parts {
			if p.Op == OpBConst {
				if !p.B {
					return s.Bool(false)
				}
				continue
			}
			if seen[p.id] {
				continue
			}
			seen[p.id] = true
			flat = append(flat, p)
		}
	}
	for _, p := range flat {
		if p.Op == OpNot && seen[p.Args[0].id] {
			return s.Bool(false)
		}
	}
	if len(flat) == 0 {
		return s.Bool(true)
	}
	if len(flat) == 1 {
		return flat[0]
	}
	return s.mk(OpAnd, SBool, flat, nil, false, "")
}

func (s *Store) Or(args ...*Term) *Term {
	var flat []*Term
	seen := map[int]bool{}
	for _, a := range args {
		var parts []*Term
		if a.Op == OpOr {
			parts = a.Args
		} else {
			parts = []*Term{a}
		}
		for _, p := range parts {
			if p.Op == OpBConst {
				if p.B {
					return s.Bool(true)
				}
				continue
			}
			if seen[p.id] {
				continue
			}
			seen[p.id] = true
			flat = append(flat, p)
		}
	}
	for _, p := range flat {
		if p.Op == OpNot && seen[p.Args[0].id] {
			return s.Bool(true)
		}
	}
	if len(flat) == 0 {
		return s.Bool(false)
	}
	if len(flat) == 1 {
		return flat[0]
	}
	return s.mk(OpOr, SBool, flat, nil, false, "")
}

func (s *Store) Implies(a, b *Term) *Term { return s.Or(s.Not(a), b) }

// ---- printing

func smtInt(v *big.Int) string {
	if v.Sign() < 0 {
		return "(- " + new(big.Int).Neg(v).String() + ")"
	}
	return v.String()
}

func smtName(n string) string { return "|" + n + "|" }

// Printer prints terms as SMT-LIB with let-sharing via define-fun of shared nodes.
type Printer struct {
	defs    []string
	named   map[int]string
	count   map[int]int
	declare map[string]Sort
	order   []string
	bounds  []string
}

func NewPrinter() *Printer {
	return &Printer{named: map[int]string{}, count: map[int]int{}, declare: map[string]Sort{}}
}

func (p *Printer) countRefs(t *Term) {
	p.count[t.id]++
	if p.count[t.id] > 1 {
		return
	}
	for _, a := range t.Args {
		p.countRefs(a)
	}
}

func (p *Printer) str(t *Term) string {
	if n, ok := p.named[t.id]; ok {
		return n
	}
	var out string
	switch t.Op {
	case OpConst:
		return smtInt(t.Val)
	case OpBConst:
		if t.B {
			return "true"
		}
		return "false"
	case OpVar:
		if _, ok := p.declare[t.Name]; !ok {
			p.declare[t.Name] = t.Sort
			p.order = append(p.order, t.Name)
			if t.Lo != nil {
				p.bounds = append(p.bounds, fmt.Sprintf("(assert (<= %s %s))", smtInt(t.Lo), smtName(t.Name)))
			}
			if t.Hi != nil {
				p.bounds = append(p.bounds, fmt.Sprintf("(assert (<= %s %s))", smtName(t.Name), smtInt(t.Hi)))
			}
		}
		return smtName(t.Name)
	default:
		var opn string
		switch t.Op {
		case OpAdd:
			opn = "+"
		case OpMul:
			opn = "*"
		case OpNeg:
			opn = "-"
		case OpDiv:
			opn = "div"
		case OpMod:
			opn = "mod"
		case OpIte:
			opn = "ite"
		case OpEq, OpIff:
			opn = "="
		case OpLe:
			opn = "<="
		case OpLt:
			opn = "<"
		case OpAnd:
			opn = "and"
		case OpOr:
			opn = "or"
		case OpNot:
			opn = "not"
		}
		var sb strings.Builder
		sb.WriteString("(" + opn)
		for _, a := range t.Args {
			sb.WriteString(" ")
			sb.WriteString(p.str(a))
		}
		sb.WriteString(")")
		out = sb.String()
	}
	if p.count[t.id] > 1 && len(out) > 24 {
		name := fmt.Sprintf("n%d", t.id)
		srt := "Int"
		if t.Sort == SBool {
			srt = "Bool"
		}
		p.defs = append(p.defs, fmt.Sprintf("(define-fun %s () %s %s)", name, srt, out))
		p.named[t.id] = name
		return name
	}
	return out
}

// Script renders assertions (conjunction) into a self-contained list of SMT-LIB commands
// (declarations, definitions, asserts) without check-sat.
func Script(asserts []*Term) string {
	p := NewPrinter()
	for _, a := range asserts {
		p.countRefs(a)
	}
	var body []string
	for _, a := range asserts {
		body = append(body, "(assert "+p.str(a)+")")
	}
	var sb strings.Builder
	for _, n := range p.order {
		srt := "Int"
		if p.declare[n] == SBool {
			srt = "Bool"
		}
		fmt.Fprintf(&sb, "(declare-fun %s () %s)\n", smtName(n), srt)
	}
	// definitions may reference variables declared later in traversal; declarations are all first
	for _, b := range p.bounds {
		sb.WriteString(b + "\n")
	}
	for _, d := range p.defs {
		sb.WriteString(d + "\n")
	}
	for _, b := range body {
		sb.WriteString(b + "\n")
	}
	return sb.String()
}

// VarsOf returns the variables occurring in the given terms.
func VarsOf(ts []*Term) []*Term {
	seen := map[int]bool{}
	var out []*Term
	var walk func(t *Term)
	walk = func(t *Term) {
		if seen[t.id] {
			return
		}
		seen[t.id] = true
		if t.Op == OpVar {
			out = append(out, t)
		}
		for _, a := range t.Args {
			walk(a)
		}
	}
	for _, t := range ts {
		walk(t)
	}
	return out
}

// Eval evaluates a term under a model (variables missing from the model default to 0/false).
func Eval(t *Term, ints map[string]*big.Int, bools map[string]bool) (iv *big.Int, bv bool) {
	memoI := map[int]*big.Int{}
	memoB := map[int]bool{}
	var ev func(t *Term) (*big.Int, bool)
	ev = func(t *Term) (*big.Int, bool) {
		if t.Sort == SInt {
			if v, ok := memoI[t.id]; ok {
				return v, false
			}
		} else {
			if v, ok := memoB[t.id]; ok {
				return nil, v
			}
		}
		var ri *big.Int
		var rb bool
		switch t.Op {
		case OpConst:
			ri = t.Val
		case OpBConst:
			rb = t.B
		case OpVar:
			if t.Sort == SInt {
				if v, ok := ints[t.Name]; ok {
					ri = v
				} else {
					ri = new(big.Int)
				}
			} else {
				rb = bools[t.Name]
			}
		case OpAdd:
			ri = new(big.Int)
			for _, a := range t.Args {
				x, _ := ev(a)
				ri.Add(ri, x)
			}
		case OpMul:
			ri = big.NewInt(1)
			for _, a := range t.Args {
				x, _ := ev(a)
				ri.Mul(ri, x)
			}
		case OpNeg:
			x, _ := ev(t.Args[0])
			ri = new(big.Int).Neg(x)
		case OpDiv:
			x, _ := ev(t.Args[0])
			ri = new(big.Int)
			ri.DivMod(x, t.Args[1].Val, new(big.Int))
		case OpMod:
			x, _ := ev(t.Args[0])
			ri = new(big.Int)
			new(big.Int).DivMod(x, t.Args[1].Val, ri)
		case OpIte:
			_, c := ev(t.Args[0])
			if c {
				ri, rb = ev(t.Args[1])
			} else {
				ri, rb = ev(t.Args[2])
			}
		case OpEq:
			x, _ := ev(t.Args[0])
			y, _ := ev(t.Args[1])
			rb = x.Cmp(y) == 0
		case OpLe:
			x, _ := ev(t.Args[0])
			y, _ := ev(t.Args[1])
			rb = x.Cmp(y) <= 0
		case OpLt:
			x, _ := ev(t.Args[0])
			y, _ := ev(t.Args[1])
			rb = x.Cmp(y) < 0
		case OpAnd:
			rb = true
			for _, a := range t.Args {
				_, x := ev(a)
				rb = rb && x
			}
		case OpOr:
			rb = false
			for _, a := range t.Args {
				_, x := ev(a)
				rb = rb || x
			}
		case OpNot:
			_, x := ev(t.Args[0])
			rb = !x
		case OpIff:
			_, x := ev(t.Args[0])
			_, y := ev(t.Args[1])
			rb = x == y
		}
		if t.Sort == SInt {
			memoI[t.id] = ri
		} else {
			memoB[t.id] = rb
		}
		return ri, rb
	}
	return ev(t)
}

func (t *Term) String() string {
	if t.size > 2000 {
		return fmt.Sprintf("<term #%d size %d>", t.id, t.size)
	}
	p := NewPrinter()
	s := p.str(t)
	if len(s) > 400 {
		return s[:400] + "..."
	}
	return s
}
