package sym

import (
	"crypto/sha256"
	"time"
	"fmt"
	"regexp"
	"go/types"
	"math/big"
	"strings"

	"golang.org/x/tools/go/ssa"
)

// ---------------------------------------------------------------- time.Time as Int nanoseconds

func (e *Exec) timeTerm(v Value) *Term {
	t, ok := v.(*Term)
	if !ok {
		unsupported("time value is %T", v)
	}
	return t
}

func init() {
	R := func(name string, in Intrinsic) { intrinsics[name] = in }
	ident := func(e *Exec, st *State, fn *ssa.Function, args []Value, depth int) []Outcome { return ret1(st, args[0]) }
	for _, n := range []string{"UTC", "Local", "Round", "In"} {
		R("(time.Time)."+n, ident)
	}
	R("(time.Time).Truncate", func(e *Exec, st *State, fn *ssa.Function, args []Value, depth int) []Outcome {
		d := args[1].(*Term)
		if d.Op == OpConst && d.Val.Sign() <= 0 {
			return ret1(st, args[0])
		}
		unsupported("time.Truncate with positive duration")
		return nil
	})
	R("(time.Time).Add", func(e *Exec, st *State, fn *ssa.Function, args []Value, depth int) []Outcome {
		return ret1(st, e.TS.Add(e.timeTerm(args[0]), args[1].(*Term)))
	})
	R("(time.Time).Sub", func(e *Exec, st *State, fn *ssa.Function, args []Value, depth int) []Outcome {
		// durations saturate at int64 in Go; harness times are assumed far from those limits
		return ret1(st, e.TS.Sub(e.timeTerm(args[0]), e.timeTerm(args[1])))
	})
	R("(time.Time).Before", func(e *Exec, st *State, fn *ssa.Function, args []Value, depth int) []Outcome {
		return ret1(st, e.TS.Lt(e.timeTerm(args[0]), e.timeTerm(args[1])))
	})
	R("(time.Time).After", func(e *Exec, st *State, fn *ssa.Function, args []Value, depth int) []Outcome {
		return ret1(st, e.TS.Gt(e.timeTerm(args[0]), e.timeTerm(args[1])))
	})
	R("(time.Time).Equal", func(e *Exec, st *State, fn *ssa.Function, args []Value, depth int) []Outcome {
		return ret1(st, e.TS.Eq(e.timeTerm(args[0]), e.timeTerm(args[1])))
	})
	R("(time.Time).Compare", func(e *Exec, st *State, fn *ssa.Function, args []Value, depth int) []Outcome {
		return ret1(st, e.cmpTerm(e.timeTerm(args[0]), e.timeTerm(args[1])))
	})
	R("(time.Time).IsZero", func(e *Exec, st *State, fn *ssa.Function, args []Value, depth int) []Outcome {
		return ret1(st, e.TS.Eq(e.timeTerm(args[0]), e.TS.Int(zeroTimeNs)))
	})
	R("(time.Time).UnixNano", func(e *Exec, st *State, fn *ssa.Function, args []Value, depth int) []Outcome {
		return ret1(st, e.timeTerm(args[0]))
	})
	R("(time.Time).Unix", func(e *Exec, st *State, fn *ssa.Function, args []Value, depth int) []Outcome {
		return ret1(st, e.TS.DivC(e.timeTerm(args[0]), big.NewInt(1000000000)))
	})
	R("(time.Time).UnixMilli", func(e *Exec, st *State, fn *ssa.Function, args []Value, depth int) []Outcome {
		return ret1(st, e.TS.DivC(e.timeTerm(args[0]), big.NewInt(1000000)))
	})
	R("(time.Time).Nanosecond", func(e *Exec, st *State, fn *ssa.Function, args []Value, depth int) []Outcome {
		return ret1(st, e.TS.ModC(e.timeTerm(args[0]), big.NewInt(1000000000)))
	})
	R("time.Unix", func(e *Exec, st *State, fn *ssa.Function, args []Value, depth int) []Outcome {
		return ret1(st, e.TS.Add(e.TS.Mul(args[0].(*Term), e.TS.Int64(1000000000)), args[1].(*Term)))
	})
	R("time.UnixMilli", func(e *Exec, st *State, fn *ssa.Function, args []Value, depth int) []Outcome {
		return ret1(st, e.TS.Mul(args[0].(*Term), e.TS.Int64(1000000)))
	})
	R("time.Now", func(e *Exec, st *State, fn *ssa.Function, args []Value, depth int) []Outcome {
		return ret1(st, e.TS.Fresh("now", SInt))
	})
	R("time.Since", func(e *Exec, st *State, fn *ssa.Function, args []Value, depth int) []Outcome {
		lo, hi := intRange(64, true)
		return ret1(st, e.TS.FreshBounded("since", lo, hi))
	})
	strOf := func(e *Exec, st *State, fn *ssa.Function, args []Value, depth int) []Outcome {
		t := e.timeTerm(args[0])
		return ret1(st, e.opaqueString("time", t))
	}
	R("(time.Time).String", strOf)
	R("(time.Time).Format", func(e *Exec, st *State, fn *ssa.Function, args []Value, depth int) []Outcome {
		t := e.timeTerm(args[0])
		layout, ok := args[1].(string)
		if t.Op == OpConst && ok {
			// concrete instant: format natively (UTC, as every harness time is)
			sec, ns := new(big.Int).DivMod(t.Val, big.NewInt(1000000000), new(big.Int))
			if sec.IsInt64() {
				return ret1(st, time.Unix(sec.Int64(), ns.Int64()).UTC().Format(layout))
			}
		}
		return ret1(st, e.opaqueString("time", t))
	})
	R("(time.Duration).String", func(e *Exec, st *State, fn *ssa.Function, args []Value, depth int) []Outcome {
		return ret1(st, e.opaqueString("dur", args[0].(*Term)))
	})
}

// ---------------------------------------------------------------- boxed protobuf encoding

// deepCopy clones the heap graph reachable from v into fresh objects of st and returns v with remapped pointers.
func (e *Exec) deepCopy(st *State, src *Heap, v Value, memo map[int]int) Value {
	switch x := v.(type) {
	case Ptr:
		if x.Obj == 0 {
			return x
		}
		return Ptr{Obj: e.copyObj(st, src, x.Obj, memo), Path: x.Path}
	case *Agg:
		n := &Agg{Elems: make([]Value, len(x.Elems))}
		for i, el := range x.Elems {
			n.Elems[i] = e.deepCopy(st, src, el, memo)
		}
		return n
	case Slice:
		if x.Base.Obj == 0 {
			return x
		}
		return Slice{Base: Ptr{Obj: e.copyObj(st, src, x.Base.Obj, memo), Path: x.Base.Path}, Off: x.Off, Len: x.Len, Cap: x.Cap}
	case Iface:
		if x.T == nil {
			return x
		}
		return Iface{T: x.T, V: e.deepCopy(st, src, x.V, memo)}
	case MapRef:
		if x.Obj == 0 {
			return x
		}
		return MapRef{Obj: e.copyObj(st, src, x.Obj, memo)}
	case Tuple:
		n := make(Tuple, len(x))
		for i, el := range x {
			n[i] = e.deepCopy(st, src, el, memo)
		}
		return n
	case *MapVal:
		n := &MapVal{Keys: append([]string{}, x.Keys...), K: map[string]Value{}, V: map[string]Value{}}
		for k, kv := range x.K {
			n.K[k] = kv
		}
		for k, vv := range x.V {
			n.V[k] = e.deepCopy(st, src, vv, memo)
		}
		return n
	}
	return v
}

func (e *Exec) copyObj(st *State, src *Heap, id int, memo map[int]int) int {
	if n, ok := memo[id]; ok {
		return n
	}
	o := src.get(id)
	if o == nil {
		unsupported("deep copy of dangling object %d", id)
	}
	nid := st.Heap.Alloc(nil, o.Typ, "copy:"+o.Site)
	memo[id] = nid
	root := e.deepCopy(st, src, o.Root, memo)
	st.Heap.objs[nid].Root = root
	return nid
}

// boxMessage produces the "encoded bytes" of a message: an opaque one-element byte slice carrying a deep snapshot.
func (e *Exec) boxMessage(st *State, msg Value, typ types.Type) Slice {
	memo := map[int]int{}
	snap := e.deepCopy(st, st.Heap, msg, memo)
	id := st.Heap.Alloc(&Boxed{T: typ, Val: snap}, nil, "boxed")
	return Slice{Base: Ptr{Obj: id}, Len: 1, Cap: 1}
}

func (e *Exec) unboxInto(st *State, bz Value, dst Value) bool {
	s, ok := bz.(Slice)
	if !ok || s.Base.Obj == 0 {
		return false
	}
	o := st.Heap.get(s.Base.Obj)
	if o == nil {
		return false
	}
	b, ok := o.Root.(*Boxed)
	if !ok {
		return false
	}
	memo := map[int]int{}
	val := e.deepCopy(st, st.Heap, b.Val, memo)
	// val is the message value: a pointer to the struct, or the struct itself
	dp, ok := dst.(Ptr)
	if !ok || dp.Obj == 0 {
		unsupported("unmarshal into %T", dst)
	}
	if vp, isPtr := val.(Ptr); isPtr {
		inner := e.load(st, vp)
		e.store(st, dp, inner)
	} else {
		e.store(st, dp, val)
	}
	return true
}

func isProtoMessageType(t types.Type) bool {
	ms := types.NewMethodSet(t)
	return ms.Lookup(nil, "ProtoMessage") != nil && ms.Lookup(nil, "Reset") != nil
}

func init() {
	R := func(name string, in Intrinsic) { intrinsics[name] = in }
	marshal := func(e *Exec, st *State, fn *ssa.Function, args []Value, depth int) []Outcome {
		msg := args[len(args)-1]
		var typ types.Type
		if iv, ok := msg.(Iface); ok {
			if iv.T == nil {
				return ret1(st, Tuple{Slice{}, e.makeError(st, "marshal of nil message")})
			}
			typ = iv.T
			msg = iv.V
		}
		return ret1(st, Tuple{e.boxMessage(st, msg, typ), Iface{}})
	}
	unmarshal := func(e *Exec, st *State, fn *ssa.Function, args []Value, depth int) []Outcome {
		bz := args[len(args)-2]
		msg := args[len(args)-1]
		if iv, ok := msg.(Iface); ok {
			msg = iv.V
		}
		if !e.unboxInto(st, bz, msg) {
			s, _ := bz.(Slice)
			if s.Len == 0 {
				// empty input decodes to the zero message
				return ret1(st, Iface{})
			}
			unsupported("unmarshal of bytes that were not produced by a modelled marshal")
		}
		return ret1(st, Iface{})
	}
	R("github.com/cosmos/gogoproto/proto.Marshal", marshal)
	R("github.com/cosmos/gogoproto/proto.Unmarshal", unmarshal)
	R("github.com/golang/protobuf/proto.Marshal", marshal)
	R("github.com/golang/protobuf/proto.Unmarshal", unmarshal)
	R("(*github.com/cosmos/cosmos-sdk/codec.ProtoCodec).Marshal", marshal)
	R("(*github.com/cosmos/cosmos-sdk/codec.ProtoCodec).Unmarshal", unmarshal)
	R("(*github.com/cosmos/cosmos-sdk/codec.ProtoCodec).MustMarshal", func(e *Exec, st *State, fn *ssa.Function, args []Value, depth int) []Outcome {
		o := marshal(e, st, fn, args, depth)
		return ret1(o[0].St, o[0].Ret.(Tuple)[0])
	})
	R("(*github.com/cosmos/cosmos-sdk/codec.ProtoCodec).MustUnmarshal", func(e *Exec, st *State, fn *ssa.Function, args []Value, depth int) []Outcome {
		o := unmarshal(e, st, fn, args, depth)
		return ret1(o[0].St, nil)
	})
	R("github.com/cosmos/gogoproto/proto.Clone", func(e *Exec, st *State, fn *ssa.Function, args []Value, depth int) []Outcome {
		iv := args[0].(Iface)
		if iv.T == nil {
			return ret1(st, iv)
		}
		memo := map[int]int{}
		return ret1(st, Iface{T: iv.T, V: e.deepCopy(st, st.Heap, iv.V, memo)})
	})
}

// noopPackages: calls into these packages are replaced by no-ops returning zero values (logging, metrics, tracing).
var noopPackages = []string{
	"github.com/cosmos/cosmos-sdk/telemetry",
	"github.com/hashicorp/go-metrics",
	"github.com/armon/go-metrics",
	"github.com/prometheus/",
	"go.opentelemetry.io/",
	"github.com/rs/zerolog",
	"cosmossdk.io/log",
	"log",
	"runtime/debug",
}

func (e *Exec) envPatternIntrinsic(fn *ssa.Function, name string) Intrinsic {
	pkg := ""
	if fn.Pkg != nil {
		pkg = fn.Pkg.Pkg.Path()
	} else if o := fn.Origin(); o != nil && o.Pkg != nil {
		pkg = o.Pkg.Pkg.Path()
	}
	for _, p := range noopPackages {
		if pkg == p || (strings.HasSuffix(p, "/") && strings.HasPrefix(pkg, p)) || strings.HasPrefix(pkg, p+"/") {
			return func(e *Exec, st *State, fn *ssa.Function, args []Value, depth int) []Outcome {
				return ret1(st, e.zeroResults(fn))
			}
		}
	}
	// decimal / integer stringers: digits of a symbolic value are an opaque string
	switch name {
	case "(cosmossdk.io/math.LegacyDec).String", "(cosmossdk.io/math.Int).String", "(cosmossdk.io/math.Uint).String",
		"(github.com/osmosis-labs/osmosis/osmomath.BigDec).String", "(github.com/osmosis-labs/osmosis/osmomath.BigInt).String":
		return func(e *Exec, st *State, fn *ssa.Function, args []Value, depth int) []Outcome {
			if a, ok := args[0].(*Agg); ok && len(a.Elems) == 1 {
				if p, ok := a.Elems[0].(Ptr); ok && p.Obj != 0 {
					if t, ok := e.load(st, p).(*Term); ok && t.Op != OpConst {
						return ret1(st, e.opaqueString("decstr:"+name, t))
					}
				}
			}
			return e.runBody(st, fn, args, depth)
		}
	}
	// text rendering of protobuf messages (reflection based): an opaque string, only ever used for events and logs
	switch name {
	case "github.com/cosmos/cosmos-sdk/x/auth/types.NewModuleAddress":
		// sha256 (assembly) of a concrete name: computed natively (address.Module without derivation keys)
		return func(e *Exec, st *State, fn *ssa.Function, args []Value, depth int) []Outcome {
			name, ok := args[0].(string)
			if !ok {
				unsupported("NewModuleAddress of a symbolic name")
			}
			h := sha256.Sum256([]byte(name))
			return ret1(st, e.stringToBytes(st, string(h[:20])))
		}
	case "(github.com/cosmos/cosmos-sdk/types.Coins).String", "(github.com/cosmos/cosmos-sdk/types.Coin).String":
		// coins with symbolic amounts render to an opaque string (events, logs, error texts); concrete ones natively
		return func(e *Exec, st *State, fn *ssa.Function, args []Value, depth int) []Outcome {
			if e.allConcrete(st, args[0], 0) {
				return e.runBody(st, fn, args, depth)
			}
			return ret1(st, e.freshOpaqueStr("coins"))
		}
	case "github.com/cosmos/gogoproto/proto.CompactTextString", "github.com/cosmos/gogoproto/proto.MarshalTextString",
		"(github.com/cosmos/cosmos-sdk/types.DecCoins).String", "(github.com/cosmos/cosmos-sdk/types.DecCoin).String":
		return func(e *Exec, st *State, fn *ssa.Function, args []Value, depth int) []Outcome {
			return ret1(st, e.freshOpaqueStr("prototext"))
		}
	}
	// generated (*T).Marshal / (*T).Unmarshal of protobuf messages
	if fn.Signature.Recv() != nil && (fn.Name() == "Marshal" || fn.Name() == "Unmarshal") {
		rt := fn.Signature.Recv().Type()
		if isProtoMessageType(rt) || isProtoMessageType(types.NewPointer(rt)) {
			if fn.Name() == "Marshal" {
				return func(e *Exec, st *State, fn *ssa.Function, args []Value, depth int) []Outcome {
					return ret1(st, Tuple{e.boxMessage(st, args[0], rt), Iface{}})
				}
			}
			return func(e *Exec, st *State, fn *ssa.Function, args []Value, depth int) []Outcome {
				if !e.unboxInto(st, args[1], args[0]) {
					unsupported("unmarshal of bytes that were not produced by a modelled marshal")
				}
				return ret1(st, Iface{})
			}
		}
	}
	return nil
}

func init() {
	R := func(name string, in Intrinsic) { intrinsics[name] = in }
	put := func(nbytes int, big bool) Intrinsic {
		return func(e *Exec, st *State, fn *ssa.Function, args []Value, depth int) []Outcome {
			s, ok := args[len(args)-2].(Slice)
			if !ok || s.Len < nbytes {
				return []Outcome{{Kind: OutPanic, St: st, Pan: e.runtimeError("index out of range (binary.Put)")}}
			}
			v := args[len(args)-1].(*Term)
			for i := 0; i < nbytes; i++ {
				shift := uint(8 * (nbytes - 1 - i))
				if !big {
					shift = uint(8 * i)
				}
				b := e.TS.ModC(e.TS.DivC(v, new(bigInt).Lsh(bigOne(), shift)), bigFromInt(256))
				e.store(st, Ptr{Obj: s.Base.Obj, Path: pathAppend(s.Base.Path, s.Off+i)}, b)
			}
			return ret1(st, nil)
		}
	}
	get := func(nbytes int, big bool) Intrinsic {
		return func(e *Exec, st *State, fn *ssa.Function, args []Value, depth int) []Outcome {
			s, ok := args[len(args)-1].(Slice)
			if !ok || s.Len < nbytes {
				return []Outcome{{Kind: OutPanic, St: st, Pan: e.runtimeError("index out of range (binary.Uint)")}}
			}
			elems := e.sliceElems(st, s)
			var parts []*Term
			for i := 0; i < nbytes; i++ {
				shift := uint(8 * (nbytes - 1 - i))
				if !big {
					shift = uint(8 * i)
				}
				parts = append(parts, e.TS.Mul(elems[i].(*Term), e.TS.Int(new(bigInt).Lsh(bigOne(), shift))))
			}
			return ret1(st, e.TS.Add(parts...))
		}
	}
	for _, n := range []struct {
		name string
		n    int
	}{{"Uint16", 2}, {"Uint32", 4}, {"Uint64", 8}} {
		R("(encoding/binary.bigEndian).Put"+n.name, put(n.n, true))
		R("(encoding/binary.bigEndian)."+n.name, get(n.n, true))
		R("(encoding/binary.littleEndian).Put"+n.name, put(n.n, false))
		R("(encoding/binary.littleEndian)."+n.name, get(n.n, false))
	}
}

func init() {
	R := func(name string, in Intrinsic) { intrinsics[name] = in }
	load := func(e *Exec, st *State, fn *ssa.Function, args []Value, depth int) []Outcome {
		return ret1(st, e.load(st, args[0]))
	}
	storeFn := func(e *Exec, st *State, fn *ssa.Function, args []Value, depth int) []Outcome {
		e.store(st, args[0], args[1])
		return ret1(st, nil)
	}
	add := func(e *Exec, st *State, fn *ssa.Function, args []Value, depth int) []Outcome {
		v := e.TS.Add(e.load(st, args[0]).(*Term), args[1].(*Term))
		v = e.wrap(v, fn.Signature.Results().At(0).Type())
		e.store(st, args[0], v)
		return ret1(st, v)
	}
	cas := func(e *Exec, st *State, fn *ssa.Function, args []Value, depth int) []Outcome {
		cur := e.load(st, args[0])
		eq := e.equal(st, cur, args[1], nil)
		if eq.Op != OpBConst {
			unsupported("symbolic atomic compare-and-swap")
		}
		if eq.B {
			e.store(st, args[0], args[2])
		}
		return ret1(st, eq)
	}
	swap := func(e *Exec, st *State, fn *ssa.Function, args []Value, depth int) []Outcome {
		old := e.load(st, args[0])
		e.store(st, args[0], args[1])
		return ret1(st, old)
	}
	for _, t := range []string{"Int32", "Int64", "Uint32", "Uint64", "Uintptr", "Pointer"} {
		R("sync/atomic.Load"+t, load)
		R("sync/atomic.Store"+t, storeFn)
		R("sync/atomic.Add"+t, add)
		R("sync/atomic.CompareAndSwap"+t, cas)
		R("sync/atomic.Swap"+t, swap)
	}
}

func init() {
	R := func(name string, in Intrinsic) { intrinsics[name] = in }
	// cosmossdk.io/errors wrapping captures stack traces through runtime internals; the wrapped error is modelled
	// as an opaque non-nil error (nil stays nil)
	wrap := func(e *Exec, st *State, fn *ssa.Function, args []Value, depth int) []Outcome {
		if iv, ok := args[0].(Iface); ok && iv.T == nil {
			return ret1(st, Iface{})
		}
		if p, ok := args[0].(Ptr); ok && p.Obj == 0 {
			return ret1(st, Iface{})
		}
		return ret1(st, e.makeError(st, e.freshOpaqueStr("wrapped")))
	}
	for _, n := range []string{"cosmossdk.io/errors.Wrap", "cosmossdk.io/errors.Wrapf", "(*cosmossdk.io/errors.Error).Wrap", "(*cosmossdk.io/errors.Error).Wrapf", "cosmossdk.io/errors.WithType", "github.com/pkg/errors.Wrap", "github.com/pkg/errors.Wrapf", "github.com/pkg/errors.WithStack"} {
		R(n, wrap)
	}
}

func init() {
	intrinsics["internal/bytealg.MakeNoZero"] = func(e *Exec, st *State, fn *ssa.Function, args []Value, depth int) []Outcome {
		n := e.concreteInt(args[0], "MakeNoZero length")
		return ret1(st, e.newSlice(st, types.Typ[types.Byte], n, n))
	}
}

var denomRe = regexp.MustCompile(`^[a-zA-Z][a-zA-Z0-9/:._-]{2,127}$`)

func init() {
	intrinsics["github.com/cosmos/cosmos-sdk/types.ValidateDenom"] = func(e *Exec, st *State, fn *ssa.Function, args []Value, depth int) []Outcome {
		s, ok := args[0].(string)
		if !ok {
			unsupported("ValidateDenom of a symbolic denom")
		}
		if denomRe.MatchString(s) {
			return ret1(st, Iface{})
		}
		return ret1(st, e.makeError(st, "invalid denom: "+s))
	}
}

func bigOne() *bigInt           { return new(bigInt).SetInt64(1) }
func bigFromInt(i int64) *bigInt { return new(bigInt).SetInt64(i) }

var _ = fmt.Sprintf

// allConcrete reports whether every integer reachable from v (through aggregates, slices and pointers) is a constant.
func (e *Exec) allConcrete(st *State, v Value, depth int) bool {
	if depth > 12 {
		return false
	}
	switch x := v.(type) {
	case *Term:
		return x.Op == OpConst || x.Op == OpBConst
	case string, nil, float64:
		return true
	case *Agg:
		for _, el := range x.Elems {
			if !e.allConcrete(st, el, depth+1) {
				return false
			}
		}
		return true
	case Slice:
		for _, el := range e.sliceElems(st, x) {
			if !e.allConcrete(st, el, depth+1) {
				return false
			}
		}
		return true
	case Ptr:
		if x.Obj == 0 {
			return true
		}
		return e.allConcrete(st, e.load(st, x), depth+1)
	case Iface:
		return x.T == nil || e.allConcrete(st, x.V, depth+1)
	}
	return false
}
