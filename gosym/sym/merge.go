package sym

import (
	"fmt"
	"go/types"
	"sort"
	"strings"

	"golang.org/x/tools/go/ssa"
)

// mergeOutcomes merges the normally-returning outcomes of one call whose states share the
// path-condition prefix PC[:baseLen]. Outcomes that cannot be merged structurally stay separate.
func (e *Exec) mergeOutcomes(baseLen int, outs []Outcome) []Outcome {
	var rets []Outcome
	var rest []Outcome
	for _, o := range outs {
		if o.Kind == OutReturn && len(o.St.PC) >= baseLen {
			rets = append(rets, o)
		} else {
			rest = append(rest, o)
		}
	}
	if len(rets) < 2 {
		return outs
	}
	// group by cheap shape key
	groups := map[string][]Outcome{}
	var order []string
	for _, o := range rets {
		k := e.shapeKey(o.Ret)
		if _, ok := groups[k]; !ok {
			order = append(order, k)
		}
		groups[k] = append(groups[k], o)
	}
	var merged []Outcome
	for _, k := range order {
		g := groups[k]
		if len(g) == 1 {
			merged = append(merged, g[0])
			continue
		}
		m, ok := e.mergeGroup(baseLen, g)
		if ok {
			merged = append(merged, m)
		} else {
			merged = append(merged, g...)
		}
	}
	return append(merged, rest...)
}

func (e *Exec) shapeKey(v Value) string {
	switch x := v.(type) {
	case Tuple:
		parts := make([]string, len(x))
		for i, el := range x {
			parts[i] = e.shapeKey(el)
		}
		return "(" + strings.Join(parts, ",") + ")"
	case Iface:
		if x.T == nil {
			return "inil"
		}
		return "i:" + x.T.String()
	case Ptr:
		if x.Obj == 0 {
			return "pnil"
		}
		return "p"
	case Slice:
		if x.Base.Obj == 0 {
			return "snil"
		}
		return fmt.Sprintf("s%d", x.Len)
	case string:
		return "str:" + x
	case nil:
		return "nil"
	case *Term:
		if x.Sort == SBool && x.Op == OpBConst {
			// keep boolean flags apart only if they are the sole result? no: merge them
		}
		return "t"
	case *Agg:
		parts := make([]string, len(x.Elems))
		for i, el := range x.Elems {
			parts[i] = e.shapeKey(el)
		}
		return "{" + strings.Join(parts, ",") + "}"
	}
	return fmt.Sprintf("%T", v)
}

type merger struct {
	e     *Exec
	outs  []Outcome
	conds []*Term
	heap  *Heap // result heap
	memo  map[string]int
	fail  string
}

func (e *Exec) mergeGroup(baseLen int, g []Outcome) (Outcome, bool) {
	ts := e.TS
	m := &merger{e: e, outs: g, memo: map[string]int{}}
	for _, o := range g {
		m.conds = append(m.conds, ts.And(o.St.PC[baseLen:]...))
	}
	// result heap starts from a fork of the first outcome's heap
	m.heap = g[0].St.Heap.Fork()
	// objects that differ between outcomes
	ids := map[int]bool{}
	for _, o := range g {
		for id := range o.St.Heap.objs {
			ids[id] = true
		}
	}
	var idList []int
	for id := range ids {
		idList = append(idList, id)
	}
	sort.Ints(idList)
	type pend struct {
		id    int
		roots []Value
	}
	var pending []pend
	for _, id := range idList {
		first := g[0].St.Heap.get(id)
		same := true
		all := true
		for _, o := range g {
			ob := o.St.Heap.get(id)
			if ob == nil {
				all = false
				break
			}
			if ob != first && !sameRoot(ob.Root, first.Root) {
				same = false
			}
		}
		if !all {
			continue // private new object of some outcomes: reachable only via merged pointers
		}
		if same {
			continue
		}
		roots := make([]Value, len(g))
		for i, o := range g {
			roots[i] = o.St.Heap.get(id).Root
		}
		pending = append(pending, pend{id, roots})
	}
	for _, p := range pending {
		r := m.mergeVals(p.roots)
		if m.fail != "" {
			e.logf("merge failed: %s", m.fail)
			return Outcome{}, false
		}
		o := m.heap.writable(p.id)
		o.Root = r
	}
	rets := make([]Value, len(g))
	for i, o := range g {
		rets[i] = o.Ret
	}
	ret := m.mergeVals(rets)
	if m.fail != "" {
		e.logf("merge failed: %s", m.fail)
		return Outcome{}, false
	}
	st := &State{Heap: m.heap}
	st.PC = append([]*Term{}, g[0].St.PC[:baseLen]...)
	st.PC = append(st.PC, ts.Or(m.conds...))
	st.Notes = append([]string{}, g[0].St.Notes...)
	st.SplitTag = g[0].St.SplitTag
	st.Overrides = g[0].St.Overrides
	return Outcome{Kind: OutReturn, St: st, Ret: ret}, true
}

func sameRoot(a, b Value) bool {
	switch x := a.(type) {
	case *Term:
		y, ok := b.(*Term)
		return ok && x == y
	case *Agg:
		y, ok := b.(*Agg)
		return ok && x == y
	case *MapVal:
		y, ok := b.(*MapVal)
		return ok && x == y
	case string:
		y, ok := b.(string)
		return ok && x == y
	case Ptr:
		y, ok := b.(Ptr)
		return ok && x == y
	}
	return false
}

func (m *merger) mergeVals(vs []Value) Value {
	if m.fail != "" {
		return nil
	}
	e := m.e
	ts := e.TS
	// fast path: all identical
	allSame := true
	for _, v := range vs[1:] {
		if !identical(v, vs[0]) {
			allSame = false
			break
		}
	}
	if allSame {
		// pointers to private new objects of outcome 0 must still be imported; they already live in m.heap (fork of heap 0)
		// but only if every outcome really shares the object (same id => shared or common)
		return vs[0]
	}
	switch x := vs[0].(type) {
	case *Term:
		acc, ok := vs[len(vs)-1].(*Term)
		if !ok {
			m.fail = "term vs non-term"
			return nil
		}
		for i := len(vs) - 2; i >= 0; i-- {
			t, ok := vs[i].(*Term)
			if !ok || t.Sort != acc.Sort {
				m.fail = "term sort mismatch"
				return nil
			}
			acc = ts.Ite(m.conds[i], t, acc)
		}
		return acc
	case *Agg:
		n := len(x.Elems)
		for _, v := range vs {
			a, ok := v.(*Agg)
			if !ok || len(a.Elems) != n {
				m.fail = "agg shape mismatch"
				return nil
			}
		}
		out := &Agg{Elems: make([]Value, n)}
		col := make([]Value, len(vs))
		for i := 0; i < n; i++ {
			for j, v := range vs {
				col[j] = v.(*Agg).Elems[i]
			}
			out.Elems[i] = m.mergeVals(col)
			if m.fail != "" {
				return nil
			}
		}
		return out
	case Tuple:
		n := len(x)
		out := make(Tuple, n)
		col := make([]Value, len(vs))
		for i := 0; i < n; i++ {
			for j, v := range vs {
				t, ok := v.(Tuple)
				if !ok || len(t) != n {
					m.fail = "tuple mismatch"
					return nil
				}
				col[j] = t[i]
			}
			out[i] = m.mergeVals(col)
			if m.fail != "" {
				return nil
			}
		}
		return out
	case Iface:
		col := make([]Value, len(vs))
		for j, v := range vs {
			iv, ok := v.(Iface)
			if !ok || (iv.T == nil) != (x.T == nil) || (x.T != nil && !types.Identical(iv.T, x.T)) {
				m.fail = "iface dynamic type mismatch"
				return nil
			}
			col[j] = iv.V
		}
		if x.T == nil {
			return x
		}
		return Iface{T: x.T, V: m.mergeVals(col)}
	case Ptr:
		return m.mergePtrs(vs)
	case Slice:
		ptrs := make([]Value, len(vs))
		for j, v := range vs {
			s, ok := v.(Slice)
			if !ok || s.Off != x.Off || s.Len != x.Len || s.Cap != x.Cap || (s.Base.Obj == 0) != (x.Base.Obj == 0) {
				m.fail = "slice shape mismatch"
				return nil
			}
			ptrs[j] = s.Base
		}
		if x.Base.Obj == 0 {
			return x
		}
		p := m.mergePtrs(ptrs)
		if m.fail != "" {
			return nil
		}
		return Slice{Base: p.(Ptr), Off: x.Off, Len: x.Len, Cap: x.Cap}
	case *Closure:
		col := make([]Value, len(vs))
		out := &Closure{Fn: x.Fn, Env: make([]Value, len(x.Env))}
		for i := range x.Env {
			for j, v := range vs {
				c, ok := v.(*Closure)
				if !ok || c.Fn != x.Fn {
					m.fail = "closure mismatch"
					return nil
				}
				col[j] = c.Env[i]
			}
			out.Env[i] = m.mergeVals(col)
			if m.fail != "" {
				return nil
			}
		}
		return out
	case *MapVal:
		out := &MapVal{K: map[string]Value{}, V: map[string]Value{}}
		for _, v := range vs {
			mv, ok := v.(*MapVal)
			if !ok || len(mv.V) != len(x.V) {
				m.fail = "map shape mismatch"
				return nil
			}
		}
		col := make([]Value, len(vs))
		for _, k := range x.Keys {
			for j, v := range vs {
				mv := v.(*MapVal)
				val, ok := mv.V[k]
				if !ok {
					m.fail = "map key mismatch"
					return nil
				}
				col[j] = val
			}
			out.Keys = append(out.Keys, k)
			out.K[k] = x.K[k]
			out.V[k] = m.mergeVals(col)
			if m.fail != "" {
				return nil
			}
		}
		return out
	case *Boxed:
		col := make([]Value, len(vs))
		for j, v := range vs {
			b, ok := v.(*Boxed)
			if !ok || (b.T != nil && x.T != nil && !types.Identical(b.T, x.T)) {
				m.fail = "boxed type mismatch"
				return nil
			}
			col[j] = b.Val
		}
		val := m.mergeVals(col)
		if m.fail != "" {
			return nil
		}
		return &Boxed{T: x.T, Val: val}
	case string, SymStr, float64, nil, *ssa.Function, MapRef, UnknownVal:
		m.fail = fmt.Sprintf("differing %T values", x)
		return nil
	}
	m.fail = fmt.Sprintf("unmergeable %T", vs[0])
	return nil
}

func identical(a, b Value) bool {
	switch x := a.(type) {
	case *Term:
		y, ok := b.(*Term)
		return ok && x == y
	case string:
		y, ok := b.(string)
		return ok && x == y
	case SymStr:
		y, ok := b.(SymStr)
		return ok && x.ID == y.ID
	case float64:
		y, ok := b.(float64)
		return ok && x == y
	case Ptr:
		y, ok := b.(Ptr)
		return ok && x == y
	case MapRef:
		y, ok := b.(MapRef)
		return ok && x == y
	case nil:
		return b == nil
	case *Agg:
		y, ok := b.(*Agg)
		if !ok {
			return false
		}
		if x == y {
			return true
		}
		if len(x.Elems) != len(y.Elems) {
			return false
		}
		for i := range x.Elems {
			if !identical(x.Elems[i], y.Elems[i]) {
				return false
			}
		}
		return true
	case Slice:
		y, ok := b.(Slice)
		return ok && x == y
	case Iface:
		y, ok := b.(Iface)
		if !ok {
			return false
		}
		if x.T == nil || y.T == nil {
			return x.T == nil && y.T == nil
		}
		return types.Identical(x.T, y.T) && identical(x.V, y.V)
	case *ssa.Function:
		y, ok := b.(*ssa.Function)
		return ok && x == y
	case *Closure:
		y, ok := b.(*Closure)
		if !ok || x.Fn != y.Fn || len(x.Env) != len(y.Env) {
			return false
		}
		for i := range x.Env {
			if !identical(x.Env[i], y.Env[i]) {
				return false
			}
		}
		return true
	case Tuple:
		y, ok := b.(Tuple)
		if !ok || len(x) != len(y) {
			return false
		}
		for i := range x {
			if !identical(x[i], y[i]) {
				return false
			}
		}
		return true
	case *Boxed:
		y, ok := b.(*Boxed)
		return ok && x == y
	}
	return false
}

// mergePtrs merges pointers that differ: allowed only when each points to an object private to its outcome
// (or all nil). A fresh object holding the merged contents is created.
func (m *merger) mergePtrs(vs []Value) Value {
	first := vs[0].(Ptr)
	key := ""
	for _, v := range vs {
		p, ok := v.(Ptr)
		if !ok || (p.Obj == 0) != (first.Obj == 0) || p.Path != first.Path {
			m.fail = "pointer shape mismatch"
			return nil
		}
		key += fmt.Sprintf("%d,", p.Obj)
	}
	if first.Obj == 0 {
		return first
	}
	if id, ok := m.memo[key]; ok {
		return Ptr{Obj: id, Path: first.Path}
	}
	roots := make([]Value, len(vs))
	var typ types.Type
	for i, v := range vs {
		p := v.(Ptr)
		o := m.outs[i].St.Heap.get(p.Obj)
		if o == nil {
			m.fail = "dangling pointer in merge"
			return nil
		}
		// the object must be private to outcome i (otherwise aliasing would be lost) or identical everywhere
		for j, other := range m.outs {
			if j != i && other.St.Heap.get(p.Obj) != nil && p.Obj != vs[j].(Ptr).Obj {
				m.fail = "pointer to shared object differs between paths"
				return nil
			}
		}
		roots[i] = o.Root
		typ = o.Typ
	}
	id := m.heap.Alloc(nil, typ, "merged")
	m.memo[key] = id
	r := m.mergeVals(roots)
	if m.fail != "" {
		return nil
	}
	m.heap.objs[id].Root = r
	return Ptr{Obj: id, Path: first.Path}
}
