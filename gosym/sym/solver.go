package sym

import (
	"bufio"
	"fmt"
	"os"
	"io"
	"math/big"
	"os/exec"
	"strings"
	"sync"
	"time"
)

// Result of a solver query.
type Result int

const (
	Unknown Result = iota
	Sat
	Unsat
)

func (r Result) String() string { return [...]string{"unknown", "sat", "unsat"}[r] }

type Model struct {
	Ints  map[string]*big.Int
	Bools map[string]bool
}

type solverSpec struct {
	Name string
	Args []string
	// option line to set a per-query timeout in ms
	Timeout func(ms int) string
}

var solverSpecs = map[string]solverSpec{
	"z3":     {"z3", []string{"-in"}, func(ms int) string { return fmt.Sprintf("(set-option :timeout %d)", ms) }},
	"z3-new": {"z3-new", []string{"-in"}, func(ms int) string { return fmt.Sprintf("(set-option :timeout %d)", ms) }},
	"cvc5":   {"cvc5", []string{"--incremental", "--lang=smt2", "--produce-models"}, func(ms int) string { return fmt.Sprintf("(set-option :tlimit-per %d)", ms) }},
}

// proc is one live solver process.
type proc struct {
	spec solverSpec
	cmd  *exec.Cmd
	in   io.WriteCloser
	out  *bufio.Reader
	dead bool
}

func startProc(spec solverSpec) (*proc, error) {
	cmd := exec.Command(spec.Name, spec.Args...)
	in, err := cmd.StdinPipe()
	if err != nil {
		return nil, err
	}
	outp, err := cmd.StdoutPipe()
	if err != nil {
		return nil, err
	}
	cmd.Stderr = cmd.Stdout
	if err := cmd.Start(); err != nil {
		return nil, err
	}
	p := &proc{spec: spec, cmd: cmd, in: in, out: bufio.NewReaderSize(outp, 1<<20)}
	io.WriteString(in, "(set-option :print-success false)\n(set-option :produce-models true)\n(set-logic ALL)\n")
	return p, nil
}

func (p *proc) kill() {
	if p == nil || p.dead {
		return
	}
	p.dead = true
	p.in.Close()
	if p.cmd.Process != nil {
		p.cmd.Process.Kill()
	}
	go p.cmd.Wait()
}

// readSexp reads one complete s-expression or atom line from the solver output.
func (p *proc) readSexp() (string, error) {
	var sb strings.Builder
	depth := 0
	started := false
	inBar := false
	for {
		b, err := p.out.ReadByte()
		if err != nil {
			return sb.String(), err
		}
		if !started {
			if b == ' ' || b == '\n' || b == '\r' || b == '\t' {
				continue
			}
			started = true
		}
		sb.WriteByte(b)
		if inBar {
			if b == '|' {
				inBar = false
			}
			continue
		}
		switch b {
		case '|':
			inBar = true
		case '(':
			depth++
		case ')':
			depth--
			if depth == 0 {
				return sb.String(), nil
			}
		case '\n':
			if depth == 0 {
				return strings.TrimSpace(sb.String()), nil
			}
		}
	}
}

// Solver is a portfolio of live solver processes; safe for use by one goroutine at a time per instance.
type Solver struct {
	names []string
	procs map[string]*proc
	mu    sync.Mutex
	Stats map[string]*SolverStat
	Log   io.Writer
}

type SolverStat struct {
	Queries int
	Wins    int
	Seconds float64
	Errors  int
}

func NewSolver(names ...string) *Solver {
	if len(names) == 0 {
		names = []string{"z3", "z3-new", "cvc5"}
	}
	s := &Solver{names: names, procs: map[string]*proc{}, Stats: map[string]*SolverStat{}}
	for _, n := range names {
		s.Stats[n] = &SolverStat{}
	}
	return s
}

func (s *Solver) Close() {
	for _, p := range s.procs {
		p.kill()
	}
}

func (s *Solver) get(name string) (*proc, error) {
	if p, ok := s.procs[name]; ok && !p.dead {
		return p, nil
	}
	p, err := startProc(solverSpecs[name])
	if err != nil {
		return nil, err
	}
	s.procs[name] = p
	return p, nil
}

type answer struct {
	name  string
	res   Result
	model *Model
	err   string
	secs  float64
}

func (s *Solver) queryOne(p *proc, script string, vars []*Term, timeoutMs int, wantModel bool) answer {
	t0 := time.Now()
	a := answer{name: p.spec.Name}
	var sb strings.Builder
	sb.WriteString("(push 1)\n")
	sb.WriteString(p.spec.Timeout(timeoutMs) + "\n")
	sb.WriteString(script)
	sb.WriteString("(check-sat)\n")
	if _, err := io.WriteString(p.in, sb.String()); err != nil {
		a.err = err.Error()
		p.kill()
		return a
	}
	line, err := p.readSexp()
	a.secs = time.Since(t0).Seconds()
	if err != nil {
		a.err = "read: " + err.Error() + " " + line
		p.kill()
		return a
	}
	switch {
	case line == "sat":
		a.res = Sat
	case line == "unsat":
		a.res = Unsat
	case line == "unknown" || line == "timeout":
		a.res = Unknown
	default:
		// error or unexpected output => inconclusive, restart process to resynchronise
		a.err = line
		p.kill()
		return a
	}
	if a.res == Sat && wantModel && len(vars) > 0 {
		var vb strings.Builder
		vb.WriteString("(get-value (")
		for _, v := range vars {
			vb.WriteString(smtName(v.Name) + " ")
		}
		vb.WriteString("))\n")
		io.WriteString(p.in, vb.String())
		out, err := p.readSexp()
		if err != nil || strings.HasPrefix(out, "(error") {
			a.err = "get-value: " + out
			p.kill()
			return a
		}
		a.model = parseValues(out)
	}
	io.WriteString(p.in, "(pop 1)\n")
	return a
}

// Check decides satisfiability of the conjunction of asserts with the given solvers in parallel.
// First definitive answer wins; the others are killed (and restarted lazily).
func (s *Solver) Check(asserts []*Term, timeoutMs int, wantModel bool, only ...string) (Result, *Model, string, float64) {
	// trivial cases
	for _, a := range asserts {
		if a.Op == OpBConst && !a.B {
			return Unsat, nil, "fold", 0
		}
	}
	return s.checkRaw(Script(asserts), VarsOf(asserts), timeoutMs, wantModel, only...)
}

func (s *Solver) checkRaw(script string, vars []*Term, timeoutMs int, wantModel bool, only ...string) (Result, *Model, string, float64) {
	s.mu.Lock()
	defer s.mu.Unlock()
	names := s.names
	if len(only) > 0 {
		names = only
	}
	t0 := time.Now()
	if os.Getenv("GOSYM_PROF") == "all" {
		fmt.Fprintf(os.Stderr, "%s checkRaw start names=%v timeout=%d script=%dB\n", t0.Format("15:04:05.000"), names, timeoutMs, len(script))
		defer func() { fmt.Fprintf(os.Stderr, "%s checkRaw end %.2fs\n", time.Now().Format("15:04:05.000"), time.Since(t0).Seconds()) }()
	}
	ch := make(chan answer, len(names))
	running := map[string]*proc{}
	for _, n := range names {
		p, err := s.get(n)
		if err != nil {
			ch <- answer{name: n, err: err.Error()}
			continue
		}
		running[n] = p
		s.Stats[n].Queries++
		go func(p *proc) { ch <- s.queryOne(p, script, vars, timeoutMs, wantModel) }(p)
	}
	var final answer
	final.res = Unknown
	got := 0
	grace := time.Duration(timeoutMs/2) * time.Millisecond
	if grace < 300*time.Millisecond {
		grace = 300 * time.Millisecond
	}
	if grace > 3*time.Second {
		grace = 3 * time.Second
	}
	deadline := time.After(time.Duration(timeoutMs)*time.Millisecond + grace)
	var errs []string
loop:
	for got < len(names) {
		select {
		case a := <-ch:
			got++
			delete(running, a.name)
			if a.err != "" {
				s.Stats[a.name].Errors++
				errs = append(errs, a.name+": "+a.err)
				continue
			}
			s.Stats[a.name].Seconds += a.secs
			if a.res != Unknown {
				final = a
				s.Stats[a.name].Wins++
				break loop
			}
		case <-deadline:
			break loop
		}
	}
	// kill whatever is still running
	for _, p := range running {
		p.kill()
	}
	el := time.Since(t0).Seconds()
	if s.Log != nil && (len(errs) > 0) {
		fmt.Fprintf(s.Log, "solver errors: %v\n", errs)
	}
	if final.res == Unknown {
		return Unknown, nil, strings.Join(errs, "; "), el
	}
	return final.res, final.model, final.name, el
}

// parseValues parses "((|x| 5) (|y| (- 3)) (|b| true))".
func parseValues(out string) *Model {
	m := &Model{Ints: map[string]*big.Int{}, Bools: map[string]bool{}}
	toks := tokenize(out)
	// expect ( ( name value ) ... )
	i := 0
	next := func() string {
		if i < len(toks) {
			t := toks[i]
			i++
			return t
		}
		return ""
	}
	if next() != "(" {
		return m
	}
	for i < len(toks) {
		t := next()
		if t == ")" {
			break
		}
		if t != "(" {
			continue
		}
		name := next()
		name = strings.Trim(name, "|")
		// value
		v := next()
		switch v {
		case "true":
			m.Bools[name] = true
			next()
		case "false":
			m.Bools[name] = false
			next()
		case "(":
			// (- N) possibly nested
			op := next()
			if op == "-" {
				n := next()
				x, _ := new(big.Int).SetString(n, 10)
				if x != nil {
					m.Ints[name] = x.Neg(x)
				}
				next() // )
				next() // )
			} else {
				// skip to matching
				depth := 1
				for depth > 0 && i < len(toks) {
					tt := next()
					if tt == "(" {
						depth++
					} else if tt == ")" {
						depth--
					}
				}
				next()
			}
		default:
			x, ok := new(big.Int).SetString(v, 10)
			if ok {
				m.Ints[name] = x
			}
			next()
		}
	}
	return m
}

func tokenize(s string) []string {
	var toks []string
	i := 0
	for i < len(s) {
		c := s[i]
		switch {
		case c == '(' || c == ')':
			toks = append(toks, string(c))
			i++
		case c == ' ' || c == '\n' || c == '\t' || c == '\r':
			i++
		case c == '|':
			j := i + 1
			for j < len(s) && s[j] != '|' {
				j++
			}
			toks = append(toks, s[i:j+1])
			i = j + 1
		default:
			j := i
			for j < len(s) && !strings.ContainsRune("() \n\t\r", rune(s[j])) {
				j++
			}
			toks = append(toks, s[i:j])
			i = j
		}
	}
	return toks
}
