package sym

import (
	"fmt"
	"go/token"
	"go/types"
	"math"
	"math/big"
	"unicode/utf8"

	"golang.org/x/tools/go/ssa"
)

func (e *Exec) step(f *Frame, instr ssa.Instruction) {
	st := f.st
	switch in := instr.(type) {
	case *ssa.DebugRef:
		return
	case *ssa.Alloc:
		elem := in.Type().(*types.Pointer).Elem()
		id := st.Heap.Alloc(e.zero(elem), elem, in.Comment)
		f.locals[in] = Ptr{Obj: id}
	case *ssa.Store:
		p := e.get(f, in.Addr)
		v := e.get(f, in.Val)
		e.store(st, p, v)
	case *ssa.UnOp:
		f.locals[in] = e.unop(f, in)
	case *ssa.BinOp:
		x, y := e.get(f, in.X), e.get(f, in.Y)
		f.locals[in] = e.binop(f, in.Op, x, y, in.X.Type(), in.Y.Type(), in.Type())
	case *ssa.Phi:
		for i, pred := range f.block.Preds {
			if pred == f.prev {
				f.locals[in] = e.get(f, in.Edges[i])
				return
			}
		}
		unsupported("phi: predecessor not found")
	case *ssa.FieldAddr:
		p := e.get(f, in.X)
		pp, ok := p.(Ptr)
		if !ok {
			unsupported("FieldAddr on %T", p)
		}
		if pp.Obj == 0 {
			e.raise(f, e.runtimeError("nil pointer dereference"))
			return
		}
		f.locals[in] = Ptr{Obj: pp.Obj, Path: pathAppend(pp.Path, in.Field)}
	case *ssa.Field:
		x := e.get(f, in.X)
		a, ok := x.(*Agg)
		if !ok {
			unsupported("Field on %T (%s)", x, in.X.Type())
		}
		f.locals[in] = a.Elems[in.Field]
	case *ssa.IndexAddr:
		x := e.get(f, in.X)
		idx := e.concreteIntSt(f.st, e.get(f, in.Index), "index")
		switch xv := x.(type) {
		case Slice:
			if idx < 0 || idx >= xv.Len {
				e.raise(f, e.runtimeError(fmt.Sprintf("index out of range [%d] with length %d", idx, xv.Len)))
				return
			}
			f.locals[in] = Ptr{Obj: xv.Base.Obj, Path: pathAppend(xv.Base.Path, xv.Off+idx)}
		case Ptr: // pointer to array
			if xv.Obj == 0 {
				e.raise(f, e.runtimeError("nil pointer dereference"))
				return
			}
			n := int(in.X.Type().Underlying().(*types.Pointer).Elem().Underlying().(*types.Array).Len())
			if idx < 0 || idx >= n {
				e.raise(f, e.runtimeError("index out of range"))
				return
			}
			f.locals[in] = Ptr{Obj: xv.Obj, Path: pathAppend(xv.Path, idx)}
		default:
			unsupported("IndexAddr on %T", x)
		}
	case *ssa.Index:
		x := e.get(f, in.X)
		idx := e.concreteIntSt(f.st, e.get(f, in.Index), "index")
		switch xv := x.(type) {
		case *Agg:
			if idx < 0 || idx >= len(xv.Elems) {
				e.raise(f, e.runtimeError("index out of range"))
				return
			}
			f.locals[in] = xv.Elems[idx]
		case string:
			if idx < 0 || idx >= len(xv) {
				e.raise(f, e.runtimeError("index out of range"))
				return
			}
			f.locals[in] = e.TS.Int64(int64(xv[idx]))
		default:
			unsupported("Index on %T", x)
		}
	case *ssa.Extract:
		t := e.get(f, in.Tuple)
		tt, ok := t.(Tuple)
		if !ok {
			if u, isU := t.(UnknownVal); isU {
				f.locals[in] = u
				return
			}
			unsupported("Extract from %T", t)
		}
		f.locals[in] = tt[in.Index]
	case *ssa.MakeInterface:
		f.locals[in] = Iface{T: in.X.Type(), V: e.get(f, in.X)}
	case *ssa.ChangeInterface:
		f.locals[in] = e.get(f, in.X)
	case *ssa.ChangeType:
		f.locals[in] = e.get(f, in.X)
	case *ssa.Convert:
		f.locals[in] = e.convert(f, e.get(f, in.X), in.X.Type(), in.Type())
	case *ssa.MultiConvert:
		f.locals[in] = e.convert(f, e.get(f, in.X), in.X.Type(), in.Type())
	case *ssa.TypeAssert:
		e.typeAssert(f, in)
	case *ssa.MakeClosure:
		env := make([]Value, len(in.Bindings))
		for i, b := range in.Bindings {
			env[i] = e.get(f, b)
		}
		f.locals[in] = &Closure{Fn: in.Fn.(*ssa.Function), Env: env}
	case *ssa.MakeSlice:
		n := e.concreteInt(e.get(f, in.Len), "make len")
		c := e.concreteInt(e.get(f, in.Cap), "make cap")
		if n < 0 || c < n {
			e.raise(f, e.runtimeError("makeslice: len out of range"))
			return
		}
		elemT := in.Type().Underlying().(*types.Slice).Elem()
		f.locals[in] = e.newSlice(st, elemT, n, c)
	case *ssa.Slice:
		e.sliceOp(f, in)
	case *ssa.MakeMap:
		id := st.Heap.Alloc(&MapVal{K: map[string]Value{}, V: map[string]Value{}}, in.Type(), "makemap")
		f.locals[in] = MapRef{Obj: id}
	case *ssa.MapUpdate:
		m, ok := e.get(f, in.Map).(MapRef)
		if !ok {
			unsupported("MapUpdate on %T", e.get(f, in.Map))
		}
		if m.Obj == 0 {
			e.raise(f, e.runtimeError("assignment to entry in nil map"))
			return
		}
		k := e.get(f, in.Key)
		ks, okk := keyString(e.normKey(st, k))
		if !okk {
			unsupported("symbolic map key")
		}
		o := st.Heap.writable(m.Obj)
		mv := o.Root.(*MapVal).clone()
		if _, exists := mv.K[ks]; !exists {
			mv.Keys = append(mv.Keys, ks)
		}
		mv.K[ks] = k
		mv.V[ks] = e.get(f, in.Value)
		o.Root = mv
	case *ssa.Lookup:
		e.lookup(f, in)
	case *ssa.Range:
		x := e.get(f, in.X)
		switch xv := x.(type) {
		case MapRef:
			var keys []string
			if xv.Obj != 0 {
				mv := st.Heap.get(xv.Obj).Root.(*MapVal)
				keys = append(keys, mv.Keys...)
			}
			// iteration state lives in a heap object so that forks do not share progress
			id := st.Heap.Alloc(&Agg{Elems: []Value{e.TS.Int64(0)}}, nil, "rangeiter")
			f.locals[in] = &rangeIter{obj: id, keys: keys, m: xv}
		case string:
			id := st.Heap.Alloc(&Agg{Elems: []Value{e.TS.Int64(0)}}, nil, "rangeiter")
			f.locals[in] = &rangeIter{obj: id, str: xv, isStr: true}
		default:
			unsupported("Range over %T", x)
		}
	case *ssa.Next:
		it := e.get(f, in.Iter).(*rangeIter)
		o := st.Heap.writable(it.obj)
		pos := int(o.Root.(*Agg).Elems[0].(*Term).Val.Int64())
		if it.isStr {
			if pos >= len(it.str) {
				f.locals[in] = Tuple{e.TS.Bool(false), e.TS.Int64(0), e.TS.Int64(0)}
				return
			}
			r, sz := utf8.DecodeRuneInString(it.str[pos:])
			o.Root = &Agg{Elems: []Value{e.TS.Int64(int64(pos + sz))}}
			f.locals[in] = Tuple{e.TS.Bool(true), e.TS.Int64(int64(pos)), e.TS.Int64(int64(r))}
			return
		}
		mt := in.Iter.(*ssa.Range).X.Type().Underlying().(*types.Map)
		for {
			if pos >= len(it.keys) {
				f.locals[in] = Tuple{e.TS.Bool(false), e.zero(mt.Key()), e.zero(mt.Elem())}
				return
			}
			ks := it.keys[pos]
			pos++
			mv := st.Heap.get(it.m.Obj).Root.(*MapVal)
			if k, ok := mv.K[ks]; ok {
				o.Root = &Agg{Elems: []Value{e.TS.Int64(int64(pos))}}
				f.locals[in] = Tuple{e.TS.Bool(true), k, mv.V[ks]}
				return
			}
		}
	case *ssa.Select, *ssa.Send:
		unsupported("channel operation")
	case *ssa.MakeChan:
		f.locals[in] = UnknownVal{"chan"}
	case *ssa.SliceToArrayPointer:
		x := e.get(f, in.X).(Slice)
		f.locals[in] = Ptr{Obj: x.Base.Obj, Path: x.Base.Path}
		if x.Off != 0 {
			unsupported("SliceToArrayPointer with offset")
		}
	default:
		unsupported("instruction %T", instr)
	}
}

type rangeIter struct {
	obj   int
	keys  []string
	m     MapRef
	str   string
	isStr bool
}

// raise switches the frame into panicking mode.
func (e *Exec) raise(f *Frame, v Value) {
	pos := ""
	if f.block != nil && f.pc < len(f.block.Instrs) {
		pos = e.Prog.Fset.Position(f.block.Instrs[f.pc].Pos()).String()
	}
	f.unwinding = &panicRec{val: v, where: f.fn.String() + " " + pos}
	f.pc-- // compensate pc++ of caller for non-control instructions; unwinding ignores pc
}

// sliceByVars returns the conjuncts of cs (and definitions) reachable within the given number of hops
// from the variables of t. Any subset of the path condition is a sound basis for an unsat answer.
func (e *Exec) sliceByVars(cs []*Term, t *Term, hops int) []*Term {
	vars := map[int]bool{}
	for _, v := range VarsOf([]*Term{t}) {
		vars[v.id] = true
	}
	all := append(append([]*Term{}, cs...), e.Defs...)
	used := make([]bool, len(all))
	var out []*Term
	for h := 0; h < hops; h++ {
		var newVars []*Term
		for i, c := range all {
			if used[i] {
				continue
			}
			cv := VarsOf([]*Term{c})
			hit := false
			for _, v := range cv {
				if vars[v.id] {
					hit = true
					break
				}
			}
			if hit {
				used[i] = true
				out = append(out, c)
				newVars = append(newVars, cv...)
			}
		}
		for _, v := range newVars {
			vars[v.id] = true
		}
	}
	return out
}

// concretize tries to show that t has a single possible value under the path condition.
func (e *Exec) concretize(st *State, t *Term) (*Term, bool) {
	if t.Op == OpConst {
		return t, true
	}
	key := "conc:" + pcKey(st.PC, t)
	if v, ok := e.defKey[key]; ok {
		if v[0] == nil {
			return nil, false
		}
		return v[0], true
	}
	probe := e.TS.Var("conc!probe", SInt)
	for _, hops := range []int{1, 2, 4, 1000} {
		asserts := e.sliceByVars(st.PC, t, hops)
		e.BranchQueries++
		r, m, _, _ := e.Solver.Check(append(append([]*Term{}, asserts...), e.TS.Eq(probe, t)), e.ConcretizeTimeoutMs, true, e.branchSolver())
		if r != Sat || m == nil {
			continue
		}
		val, ok := m.Ints["conc!probe"]
		if !ok {
			continue
		}
		c := e.TS.Int(val)
		e.BranchQueries++
		r2, _, _, _ := e.Solver.Check(append(append([]*Term{}, asserts...), e.TS.Ne(t, c)), e.ConcretizeTimeoutMs, false)
		if r2 == Unsat {
			e.defKey[key] = []*Term{c}
			return c, true
		}
	}
	e.defKey[key] = []*Term{nil}
	return nil, false
}

// enumerate lists the possible values of t under the path condition when there are at most max of them.
func (e *Exec) enumerate(st *State, t *Term, max int) ([]*big.Int, bool) {
	if t.Op == OpConst {
		return []*big.Int{t.Val}, true
	}
	probe := e.TS.Var("enum!probe", SInt)
	base := e.relevant(append(append([]*Term{}, st.PC...), e.TS.Eq(probe, t)))
	var vals []*big.Int
	for len(vals) <= max {
		q := append([]*Term{}, base...)
		for _, v := range vals {
			q = append(q, e.TS.Ne(t, e.TS.Int(v)))
		}
		e.BranchQueries++
		r, m, _, _ := e.Solver.Check(q, e.ConcretizeTimeoutMs, true)
		if r == Unsat {
			return vals, true
		}
		if r != Sat || m == nil {
			return vals, false
		}
		v, ok := m.Ints["enum!probe"]
		if !ok {
			return vals, false
		}
		vals = append(vals, v)
	}
	return vals, false
}

// forkOnValues splits the state on the possible values of a symbolic count (used by shift intrinsics).
func (e *Exec) forkOnValues(st *State, t *Term, max int, what string) ([]*State, []*big.Int) {
	vals, complete := e.enumerate(st, t, max)
	if !complete || len(vals) == 0 {
		unsupported("symbolic %s", what)
	}
	var sts []*State
	for i, v := range vals {
		s2 := st
		if i < len(vals)-1 {
			s2 = st.Fork()
		}
		s2.PC = append(s2.PC, e.TS.Eq(t, e.TS.Int(v)))
		sts = append(sts, s2)
	}
	return sts, vals
}

func (e *Exec) concreteIntSt(st *State, v Value, what string) int {
	if t, ok := v.(*Term); ok && t.Op != OpConst && t.Sort == SInt && st != nil && !e.inInit {
		if c, ok := e.concretize(st, t); ok {
			v = c
		}
	}
	return e.concreteInt(v, what)
}

func (e *Exec) concreteInt(v Value, what string) int {
	t, ok := v.(*Term)
	if !ok || t.Op != OpConst {
		unsupported("symbolic %s", what)
	}
	if !t.Val.IsInt64() {
		unsupported("huge %s", what)
	}
	return int(t.Val.Int64())
}

func (e *Exec) store(st *State, p Value, v Value) {
	pp, ok := p.(Ptr)
	if !ok {
		unsupported("store through %T", p)
	}
	if pp.Obj == 0 {
		unsupported("store through nil pointer")
	}
	if err := st.Heap.Store(pp, v); err != nil {
		unsupported("%v", err)
	}
}

func (e *Exec) load(st *State, p Value) Value {
	pp, ok := p.(Ptr)
	if !ok {
		if u, isU := p.(UnknownVal); isU {
			unsupported("load through unknown pointer: %s", u.Why)
		}
		unsupported("load through %T", p)
	}
	v, err := st.Heap.Load(pp)
	if err != nil {
		unsupported("%v", err)
	}
	return v
}

func (e *Exec) newSlice(st *State, elemT types.Type, n, c int) Slice {
	arr := &Agg{Elems: make([]Value, c)}
	if c > 0 {
		z := e.zero(elemT)
		for i := range arr.Elems {
			arr.Elems[i] = z
		}
	}
	id := st.Heap.Alloc(arr, types.NewArray(elemT, int64(c)), "makeslice")
	return Slice{Base: Ptr{Obj: id}, Off: 0, Len: n, Cap: c}
}

func (e *Exec) sliceFromValues(st *State, elemT types.Type, vals []Value) Slice {
	arr := &Agg{Elems: append([]Value{}, vals...)}
	id := st.Heap.Alloc(arr, types.NewArray(elemT, int64(len(vals))), "slice")
	return Slice{Base: Ptr{Obj: id}, Len: len(vals), Cap: len(vals)}
}

func (e *Exec) sliceElems(st *State, s Slice) []Value {
	if s.Len == 0 {
		return nil
	}
	arr := e.load(st, s.Base)
	if b, ok := arr.(*Boxed); ok {
		_ = b
		unsupported("element access into boxed (marshalled) bytes")
	}
	a := arr.(*Agg)
	return a.Elems[s.Off : s.Off+s.Len]
}

func (e *Exec) bytesToString(st *State, s Slice) (string, bool) {
	if s.Len == 0 {
		return "", true
	}
	elems := e.sliceElems(st, s)
	b := make([]byte, len(elems))
	for i, el := range elems {
		t, ok := el.(*Term)
		if !ok || t.Op != OpConst {
			return "", false
		}
		b[i] = byte(t.Val.Int64())
	}
	return string(b), true
}

func (e *Exec) stringToBytes(st *State, s string) Slice {
	vals := make([]Value, len(s))
	for i := 0; i < len(s); i++ {
		vals[i] = e.TS.Int64(int64(s[i]))
	}
	if len(s) == 0 {
		// non-nil empty slice
		id := st.Heap.Alloc(&Agg{}, nil, "emptybytes")
		return Slice{Base: Ptr{Obj: id}}
	}
	return e.sliceFromValues(st, types.Typ[types.Byte], vals)
}

func (e *Exec) sliceOp(f *Frame, in *ssa.Slice) {
	st := f.st
	x := e.get(f, in.X)
	lo, hi, max := 0, -1, -1
	if in.Low != nil {
		lo = e.concreteInt(e.get(f, in.Low), "slice low")
	}
	if in.High != nil {
		hi = e.concreteInt(e.get(f, in.High), "slice high")
	}
	if in.Max != nil {
		max = e.concreteInt(e.get(f, in.Max), "slice max")
	}
	switch xv := x.(type) {
	case string:
		if hi < 0 {
			hi = len(xv)
		}
		if lo < 0 || hi > len(xv) || lo > hi {
			e.raise(f, e.runtimeError("slice bounds out of range"))
			return
		}
		f.locals[in] = xv[lo:hi]
	case Slice:
		if hi < 0 {
			hi = xv.Len
		}
		if max < 0 {
			max = xv.Cap
		}
		if lo < 0 || hi > xv.Cap || lo > hi || max > xv.Cap || hi > max {
			e.raise(f, e.runtimeError(fmt.Sprintf("slice bounds out of range [%d:%d] with capacity %d", lo, hi, xv.Cap)))
			return
		}
		if xv.Base.Obj == 0 {
			f.locals[in] = Slice{}
			return
		}
		f.locals[in] = Slice{Base: xv.Base, Off: xv.Off + lo, Len: hi - lo, Cap: max - lo}
	case Ptr:
		if xv.Obj == 0 {
			e.raise(f, e.runtimeError("nil pointer dereference"))
			return
		}
		n := int(in.X.Type().Underlying().(*types.Pointer).Elem().Underlying().(*types.Array).Len())
		if hi < 0 {
			hi = n
		}
		if max < 0 {
			max = n
		}
		if lo < 0 || hi > n || lo > hi || max > n {
			e.raise(f, e.runtimeError("slice bounds out of range"))
			return
		}
		f.locals[in] = Slice{Base: xv, Off: lo, Len: hi - lo, Cap: max - lo}
	case SymStr:
		unsupported("slicing symbolic string")
	default:
		unsupported("Slice on %T", x)
	}
	_ = st
}

// normKey canonicalises map keys: byte-array aggregates etc. are left as they are.
func (e *Exec) normKey(st *State, k Value) Value { return k }

func (e *Exec) lookup(f *Frame, in *ssa.Lookup) {
	st := f.st
	x := e.get(f, in.X)
	switch xv := x.(type) {
	case string:
		idx := e.concreteInt(e.get(f, in.Index), "string index")
		if idx < 0 || idx >= len(xv) {
			e.raise(f, e.runtimeError("index out of range"))
			return
		}
		f.locals[in] = e.TS.Int64(int64(xv[idx]))
	case MapRef:
		mt := in.X.Type().Underlying().(*types.Map)
		k := e.get(f, in.Index)
		var val Value
		found := false
		if xv.Obj != 0 {
			ks, ok := keyString(e.normKey(st, k))
			if !ok {
				unsupported("symbolic map key in lookup")
			}
			mv := st.Heap.get(xv.Obj).Root.(*MapVal)
			val, found = mv.V[ks]
		}
		if !found {
			val = e.zero(mt.Elem())
		}
		if in.CommaOk {
			f.locals[in] = Tuple{val, e.TS.Bool(found)}
		} else {
			f.locals[in] = val
		}
	default:
		unsupported("Lookup on %T", x)
	}
}

func (e *Exec) typeAssert(f *Frame, in *ssa.TypeAssert) {
	x := e.get(f, in.X)
	iv, ok := x.(Iface)
	if !ok {
		if u, isU := x.(UnknownVal); isU {
			unsupported("type assert on unknown value: %s", u.Why)
		}
		unsupported("TypeAssert on %T", x)
	}
	var res Value
	okv := false
	if iv.T != nil {
		if types.IsInterface(in.AssertedType) {
			if iv.T == runtimeErrorType || iv.T == engineErrorPtrType {
				// our synthetic errors: implement error only
				itf := in.AssertedType.Underlying().(*types.Interface)
				okv = true
				for mi := 0; mi < itf.NumMethods(); mi++ {
					mn := itf.Method(mi).Name()
					if mn != "Error" && !(mn == "RuntimeError" && iv.T == runtimeErrorType) {
						okv = false
					}
				}
			} else {
				okv = types.Implements(iv.T, in.AssertedType.Underlying().(*types.Interface))
			}
			if okv {
				res = iv
			}
		} else {
			okv = types.Identical(iv.T, in.AssertedType)
			if okv {
				res = iv.V
			}
		}
	}
	if !okv {
		if in.CommaOk {
			f.locals[in] = Tuple{e.zero(in.AssertedType), e.TS.Bool(false)}
			return
		}
		e.raise(f, e.runtimeError(fmt.Sprintf("interface conversion: %v is not %v", iv.T, in.AssertedType)))
		return
	}
	if in.CommaOk {
		f.locals[in] = Tuple{res, e.TS.Bool(true)}
	} else {
		f.locals[in] = res
	}
}

func (e *Exec) unop(f *Frame, in *ssa.UnOp) Value {
	x := e.get(f, in.X)
	switch in.Op {
	case token.MUL:
		p, ok := x.(Ptr)
		if ok && p.Obj == 0 {
			e.raise(f, e.runtimeError("nil pointer dereference"))
			return nil
		}
		v := e.load(f.st, x)
		if in.CommaOk {
			unsupported("commaok load")
		}
		return v
	case token.SUB:
		switch xv := x.(type) {
		case *Term:
			return e.wrap(e.TS.Neg(xv), in.Type())
		case float64:
			return -xv
		}
	case token.NOT:
		return e.TS.Not(x.(*Term))
	case token.XOR:
		t := x.(*Term)
		// ^x = -x-1 (signed), for unsigned: max - x
		bits, signed, _ := intInfo(in.Type())
		if signed {
			return e.TS.Sub(e.TS.Neg(t), e.TS.Int64(1))
		}
		_, hi := intRange(bits, false)
		return e.TS.Sub(e.TS.Int(hi), t)
	case token.ARROW:
		unsupported("channel receive")
	}
	unsupported("unop %v on %T", in.Op, x)
	return nil
}

func (e *Exec) boolTerm(v Value) *Term {
	t, ok := v.(*Term)
	if !ok || t.Sort != SBool {
		unsupported("expected bool, got %T", v)
	}
	return t
}

// equal builds the equality predicate for two values of the same static type.
func (e *Exec) equal(st *State, x, y Value, t types.Type) *Term {
	ts := e.TS
	switch xv := x.(type) {
	case *Term:
		yv, ok := y.(*Term)
		if !ok {
			unsupported("eq: %T vs %T", x, y)
		}
		return ts.Eq(xv, yv)
	case string:
		switch yv := y.(type) {
		case string:
			return ts.Bool(xv == yv)
		case SymStr:
			return ts.Eq(e.internStr(xv), yv.ID)
		}
	case SymStr:
		return ts.Eq(xv.ID, e.strID(y))
	case float64:
		return ts.Bool(xv == y.(float64))
	case Ptr:
		yv, ok := y.(Ptr)
		if !ok {
			unsupported("eq: Ptr vs %T", y)
		}
		return ts.Bool(xv == yv)
	case MapRef:
		return ts.Bool(xv == y.(MapRef))
	case Slice:
		yv := y.(Slice)
		// only comparison with nil is legal
		return ts.Bool((xv.Base.Obj == 0) == (yv.Base.Obj == 0) && (xv.Base.Obj == 0 || yv.Base.Obj == 0) || xv == yv)
	case nil:
		switch yv := y.(type) {
		case nil:
			return ts.Bool(true)
		case *Closure, *ssa.Function:
			return ts.Bool(false)
		default:
			_ = yv
		}
	case *Closure, *ssa.Function:
		if y == nil {
			return ts.Bool(false)
		}
	case *Agg:
		yv, ok := y.(*Agg)
		if !ok || len(yv.Elems) != len(xv.Elems) {
			unsupported("eq: agg mismatch")
		}
		acc := ts.Bool(true)
		var elemT func(i int) types.Type
		switch u := t.Underlying().(type) {
		case *types.Struct:
			elemT = func(i int) types.Type { return u.Field(i).Type() }
		case *types.Array:
			elemT = func(i int) types.Type { return u.Elem() }
		default:
			elemT = func(i int) types.Type { return nil }
		}
		for i := range xv.Elems {
			acc = ts.And(acc, e.equal(st, xv.Elems[i], yv.Elems[i], elemT(i)))
		}
		return acc
	case Iface:
		yv, ok := y.(Iface)
		if !ok {
			unsupported("eq: Iface vs %T", y)
		}
		if xv.T == nil || yv.T == nil {
			return ts.Bool(xv.T == nil && yv.T == nil)
		}
		if !types.Identical(xv.T, yv.T) {
			return ts.Bool(false)
		}
		return e.equal(st, xv.V, yv.V, xv.T)
	case UnknownVal:
		unsupported("comparison with unknown value: %s", xv.Why)
	}
	unsupported("eq: unsupported %T vs %T", x, y)
	return nil
}

func (e *Exec) binop(f *Frame, op token.Token, x, y Value, xt, yt, rt types.Type) Value {
	ts := e.TS
	switch op {
	case token.EQL:
		return e.equal(f.st, x, y, xt)
	case token.NEQ:
		return ts.Not(e.equal(f.st, x, y, xt))
	}
	switch xv := x.(type) {
	case *Term:
		yv, ok := y.(*Term)
		if !ok {
			unsupported("binop %v: Term vs %T", op, y)
		}
		if xv.Sort == SBool {
			switch op {
			case token.AND, token.LAND:
				return ts.And(xv, yv)
			case token.OR, token.LOR:
				return ts.Or(xv, yv)
			case token.XOR:
				return ts.Not(ts.Iff(xv, yv))
			}
			unsupported("bool binop %v", op)
		}
		switch op {
		case token.ADD:
			return e.wrap(ts.Add(xv, yv), rt)
		case token.SUB:
			return e.wrap(ts.Sub(xv, yv), rt)
		case token.MUL:
			return e.wrap(ts.Mul(xv, yv), rt)
		case token.QUO, token.REM:
			if yv.Op == OpConst && yv.Val.Sign() == 0 {
				e.raise(f, e.runtimeError("integer divide by zero"))
				return nil
			}
			if yv.Op != OpConst {
				// require divisor nonzero on this path
				ok, _ := e.feasible(f.st, ts.Eq(yv, ts.Int64(0)))
				if ok {
					unsupported("possible machine-integer division by zero (symbolic divisor)")
				}
			}
			q, r := e.truncDivRem(xv, yv)
			if op == token.QUO {
				return e.wrap(q, rt)
			}
			return r
		case token.LSS:
			return ts.Lt(xv, yv)
		case token.LEQ:
			return ts.Le(xv, yv)
		case token.GTR:
			return ts.Gt(xv, yv)
		case token.GEQ:
			return ts.Ge(xv, yv)
		case token.SHL:
			if yv.Op != OpConst {
				unsupported("symbolic shift count")
			}
			k := uint(yv.Val.Uint64())
			if k > 4096 {
				return ts.Int64(0)
			}
			return e.wrap(ts.Mul(xv, ts.Int(new(big.Int).Lsh(big.NewInt(1), k))), rt)
		case token.SHR:
			if yv.Op != OpConst {
				unsupported("symbolic shift count")
			}
			k := uint(yv.Val.Uint64())
			if k > 4096 {
				k = 4096
			}
			return ts.DivC(xv, new(big.Int).Lsh(big.NewInt(1), k))
		case token.AND, token.OR, token.XOR, token.AND_NOT:
			if xv.Op == OpConst && yv.Op == OpConst {
				bits, signed, _ := intInfo(rt)
				_ = bits
				_ = signed
				r := new(big.Int)
				switch op {
				case token.AND:
					r.And(xv.Val, yv.Val)
				case token.OR:
					r.Or(xv.Val, yv.Val)
				case token.XOR:
					r.Xor(xv.Val, yv.Val)
				case token.AND_NOT:
					r.AndNot(xv.Val, yv.Val)
				}
				return e.wrap(ts.Int(r), rt)
			}
			if op == token.AND && yv.Op == OpConst && yv.Val.Sign() > 0 {
				// x & (2^k-1) == x mod 2^k for non-negative or two's complement x
				m := new(big.Int).Add(yv.Val, big.NewInt(1))
				if new(big.Int).And(m, yv.Val).Sign() == 0 {
					return ts.ModC(xv, m)
				}
			}
			unsupported("symbolic bitwise %v", op)
		}
	case string:
		switch yv := y.(type) {
		case string:
			switch op {
			case token.ADD:
				return xv + yv
			case token.LSS:
				return ts.Bool(xv < yv)
			case token.LEQ:
				return ts.Bool(xv <= yv)
			case token.GTR:
				return ts.Bool(xv > yv)
			case token.GEQ:
				return ts.Bool(xv >= yv)
			}
		case SymStr:
			if op == token.ADD {
				return e.concatSym(x, y)
			}
		}
	case SymStr:
		if op == token.ADD {
			return e.concatSym(x, y)
		}
		unsupported("ordering on symbolic strings")
	case float64:
		yv := y.(float64)
		switch op {
		case token.ADD:
			return xv + yv
		case token.SUB:
			return xv - yv
		case token.MUL:
			return xv * yv
		case token.QUO:
			return xv / yv
		case token.LSS:
			return ts.Bool(xv < yv)
		case token.LEQ:
			return ts.Bool(xv <= yv)
		case token.GTR:
			return ts.Bool(xv > yv)
		case token.GEQ:
			return ts.Bool(xv >= yv)
		}
	case UnknownVal:
		unsupported("binop on unknown value: %s", xv.Why)
	}
	unsupported("binop %v on %T, %T", op, x, y)
	return nil
}

// concatSym models concatenation involving symbolic strings as an injective uninterpreted pairing:
// the result is a fresh symbolic string determined by the ids of its parts.
func (e *Exec) concatSym(x, y Value) Value {
	a, b := e.strID(x), e.strID(y)
	key := fmt.Sprintf("concat:%d:%d", a.id, b.id)
	if v, ok := e.defKey[key]; ok {
		return SymStr{ID: v[0]}
	}
	id := e.TS.Fresh("strcat", SInt)
	// fresh ids are kept apart from interned concrete strings (which are positive and small): negative range
	e.addDef(e.TS.Lt(id, e.TS.Int64(0)))
	e.defKey[key] = []*Term{id}
	return SymStr{ID: id}
}

func (e *Exec) convert(f *Frame, x Value, from, to types.Type) Value {
	st := f.st
	ft, tt := from.Underlying(), to.Underlying()
	switch tu := tt.(type) {
	case *types.Basic:
		switch {
		case tu.Info()&types.IsInteger != 0:
			switch xv := x.(type) {
			case *Term:
				return e.wrap(xv, to)
			case float64:
				bi, _ := big.NewFloat(math.Trunc(xv)).Int(nil)
				return e.wrap(e.TS.Int(bi), to)
			}
		case tu.Info()&types.IsFloat != 0:
			switch xv := x.(type) {
			case *Term:
				if xv.Op != OpConst {
					// floats are not modelled symbolically; the value is opaque and only an error if it is inspected
					return UnknownVal{Why: "float of symbolic integer"}
				}
				fl, _ := new(big.Float).SetInt(xv.Val).Float64()
				return fl
			case float64:
				if tu.Kind() == types.Float32 {
					return float64(float32(xv))
				}
				return xv
			}
		case tu.Info()&types.IsString != 0:
			switch xv := x.(type) {
			case string, SymStr:
				return xv
			case *Term:
				if xv.Op != OpConst {
					unsupported("symbolic rune to string")
				}
				return string(rune(xv.Val.Int64()))
			case Slice:
				if fs, ok := ft.(*types.Slice); ok {
					if b, isb := fs.Elem().Underlying().(*types.Basic); isb && b.Kind() == types.Int32 {
						rs := e.sliceElems(st, xv)
						out := make([]rune, len(rs))
						for i, r := range rs {
							out[i] = rune(e.concreteInt(r, "rune"))
						}
						return string(out)
					}
				}
				if s, ok := e.symBytesString(st, xv); ok {
					return s
				}
				s, ok := e.bytesToString(st, xv)
				if !ok {
					unsupported("symbolic bytes to string")
				}
				return s
			}
		case tu.Kind() == types.UnsafePointer:
			return x
		case tu.Info()&types.IsBoolean != 0:
			return x
		}
	case *types.Slice:
		switch xv := x.(type) {
		case string:
			if b, isb := tu.Elem().Underlying().(*types.Basic); isb && b.Kind() == types.Int32 {
				rs := []rune(xv)
				vals := make([]Value, len(rs))
				for i, r := range rs {
					vals[i] = e.TS.Int64(int64(r))
				}
				return e.sliceFromValues(st, tu.Elem(), vals)
			}
			return e.stringToBytes(st, xv)
		case SymStr:
			return e.symStringBytes(st, xv)
		case Slice:
			return xv
		}
	case *types.Pointer:
		return x
	}
	if types.Identical(ft, tt) {
		return x
	}
	unsupported("convert %v -> %v (%T)", from, to, x)
	return nil
}

// symbolic strings converted to []byte are carried as a boxed payload so that string(bytes) gives them back.
func (e *Exec) symStringBytes(st *State, s SymStr) Slice {
	id := st.Heap.Alloc(&Boxed{T: types.Typ[types.String], Val: s}, nil, "symstrbytes")
	return Slice{Base: Ptr{Obj: id}, Len: 1, Cap: 1}
}

func (e *Exec) symBytesString(st *State, s Slice) (Value, bool) {
	if s.Base.Obj == 0 {
		return nil, false
	}
	o := st.Heap.get(s.Base.Obj)
	if o == nil {
		return nil, false
	}
	if b, ok := o.Root.(*Boxed); ok && s.Base.Path == "" {
		if ss, ok := b.Val.(SymStr); ok {
			return ss, true
		}
	}
	return nil, false
}
