package sym

import (
	"bytes"
	"fmt"
	"go/types"
	"math/big"
	"reflect"
	"strconv"
	"strings"
	"unicode"
	"unicode/utf8"

	"golang.org/x/tools/go/ssa"
)

// toNative converts a symbolic-engine value to a native Go value of the wanted reflect type.
func (e *Exec) toNative(st *State, v Value, want reflect.Type) (reflect.Value, bool) {
	switch want.Kind() {
	case reflect.String:
		s, ok := v.(string)
		if !ok {
			return reflect.Value{}, false
		}
		return reflect.ValueOf(s).Convert(want), true
	case reflect.Int, reflect.Int8, reflect.Int16, reflect.Int32, reflect.Int64:
		t, ok := v.(*Term)
		if !ok || t.Op != OpConst || !t.Val.IsInt64() {
			return reflect.Value{}, false
		}
		return reflect.ValueOf(t.Val.Int64()).Convert(want), true
	case reflect.Uint, reflect.Uint8, reflect.Uint16, reflect.Uint32, reflect.Uint64:
		t, ok := v.(*Term)
		if !ok || t.Op != OpConst || !t.Val.IsUint64() {
			return reflect.Value{}, false
		}
		return reflect.ValueOf(t.Val.Uint64()).Convert(want), true
	case reflect.Bool:
		t, ok := v.(*Term)
		if !ok || t.Op != OpBConst {
			return reflect.Value{}, false
		}
		return reflect.ValueOf(t.B), true
	case reflect.Float64, reflect.Float32:
		f, ok := v.(float64)
		if !ok {
			return reflect.Value{}, false
		}
		return reflect.ValueOf(f).Convert(want), true
	case reflect.Slice:
		s, ok := v.(Slice)
		if !ok {
			return reflect.Value{}, false
		}
		out := reflect.MakeSlice(want, 0, s.Len)
		if s.Base.Obj == 0 {
			return reflect.Zero(want), true
		}
		if s.Len == 0 {
			return out, true
		}
		// boxed payloads cannot be converted
		if _, isBoxed := st.Heap.get(s.Base.Obj).Root.(*Boxed); isBoxed {
			return reflect.Value{}, false
		}
		for _, el := range e.sliceElems(st, s) {
			nv, ok := e.toNative(st, el, want.Elem())
			if !ok {
				return reflect.Value{}, false
			}
			out = reflect.Append(out, nv)
		}
		return out, true
	case reflect.Interface:
		// used for fmt arguments
		iv, ok := v.(Iface)
		if !ok {
			return reflect.Value{}, false
		}
		nv, ok := e.fmtArg(st, iv)
		if !ok {
			return reflect.Value{}, false
		}
		if nv == nil {
			return reflect.Zero(want), true
		}
		return reflect.ValueOf(nv), true
	}
	return reflect.Value{}, false
}

func (e *Exec) fromNative(st *State, v reflect.Value, typ types.Type) Value {
	switch v.Kind() {
	case reflect.String:
		return v.String()
	case reflect.Int, reflect.Int8, reflect.Int16, reflect.Int32, reflect.Int64:
		return e.TS.Int64(v.Int())
	case reflect.Uint, reflect.Uint8, reflect.Uint16, reflect.Uint32, reflect.Uint64:
		return e.TS.Uint64(v.Uint())
	case reflect.Bool:
		return e.TS.Bool(v.Bool())
	case reflect.Float64, reflect.Float32:
		return v.Float()
	case reflect.Slice:
		if v.IsNil() {
			return Slice{}
		}
		var elemT types.Type
		if typ != nil {
			if sl, ok := typ.Underlying().(*types.Slice); ok {
				elemT = sl.Elem()
			}
		}
		vals := make([]Value, v.Len())
		for i := range vals {
			vals[i] = e.fromNative(st, v.Index(i), elemT)
		}
		if len(vals) == 0 {
			id := st.Heap.Alloc(&Agg{}, nil, "empty")
			return Slice{Base: Ptr{Obj: id}}
		}
		return e.sliceFromValues(st, elemT, vals)
	case reflect.Interface:
		if v.IsNil() {
			return Iface{}
		}
	}
	unsupported("fromNative: %v", v.Kind())
	return nil
}

// nativeFunc wraps a Go function so that it is evaluated natively when all arguments are concrete.
func nativeFunc(goFn interface{}) Intrinsic {
	fv := reflect.ValueOf(goFn)
	ft := fv.Type()
	return func(e *Exec, st *State, fn *ssa.Function, args []Value, depth int) []Outcome {
		n := ft.NumIn()
		in := make([]reflect.Value, 0, len(args))
		if ft.IsVariadic() {
			for i := 0; i < n-1; i++ {
				nv, ok := e.toNative(st, args[i], ft.In(i))
				if !ok {
					unsupported("native call %s: argument %d not concrete (%T)", fn.String(), i, args[i])
				}
				in = append(in, nv)
			}
			// the variadic slice
			nv, ok := e.toNative(st, args[n-1], ft.In(n-1))
			if !ok {
				unsupported("native call %s: variadic argument not concrete", fn.String())
			}
			for i := 0; i < nv.Len(); i++ {
				in = append(in, nv.Index(i))
			}
		} else {
			if len(args) != n {
				unsupported("native call %s: arity", fn.String())
			}
			for i := 0; i < n; i++ {
				nv, ok := e.toNative(st, args[i], ft.In(i))
				if !ok {
					unsupported("native call %s: argument %d not concrete (%T)", fn.String(), i, args[i])
				}
				in = append(in, nv)
			}
		}
		out := fv.Call(in)
		res := fn.Signature.Results()
		switch len(out) {
		case 0:
			return ret1(st, nil)
		case 1:
			return ret1(st, e.nativeResult(st, out[0], res.At(0).Type()))
		}
		t := make(Tuple, len(out))
		for i := range out {
			t[i] = e.nativeResult(st, out[i], res.At(i).Type())
		}
		return ret1(st, t)
	}
}

func (e *Exec) nativeResult(st *State, v reflect.Value, typ types.Type) Value {
	if v.Kind() == reflect.Interface && typ.String() == "error" {
		if v.IsNil() {
			return Iface{}
		}
		return e.makeError(st, v.Interface().(error).Error())
	}
	return e.fromNative(st, v, typ)
}

// makeError builds an error value (an *errors.errorString) carrying msg (string or SymStr).
func (e *Exec) makeError(st *State, msg Value) Value {
	id := st.Heap.Alloc(&Agg{Elems: []Value{msg}}, nil, "error")
	return Iface{T: engineErrorPtrType, V: Ptr{Obj: id}}
}

// engineErrorPtrType is the dynamic type of errors created by the engine; its Error method is handled in invokeHook.
var engineErrorType = types.NewNamed(types.NewTypeName(0, nil, "engineError", nil), types.NewStruct([]*types.Var{types.NewField(0, nil, "s", types.Typ[types.String], false)}, nil), nil)
var engineErrorPtrType = types.NewPointer(engineErrorType)

// fmtArg converts an interface-typed argument to something fmt can print faithfully; ok=false if symbolic.
func (e *Exec) fmtArg(st *State, iv Iface) (interface{}, bool) {
	if iv.T == nil {
		return nil, true
	}
	switch v := iv.V.(type) {
	case string:
		return v, true
	case *Term:
		if isBigInt(iv.T) {
			return nil, false
		}
		if v.Op == OpConst {
			if b, ok := iv.T.Underlying().(*types.Basic); ok {
				switch b.Kind() {
				case types.Uint8:
					return uint8(v.Val.Uint64()), true
				case types.Int32:
					return int32(v.Val.Int64()), true
				case types.Uint64, types.Uint, types.Uint32, types.Uint16:
					return v.Val.Uint64(), true
				}
			}
			if v.Val.IsInt64() {
				return v.Val.Int64(), true
			}
			return new(big.Int).Set(v.Val), true
		}
		if v.Op == OpBConst {
			return v.B, true
		}
		return nil, false
	case float64:
		return v, true
	case Ptr:
		if ptr, ok := iv.T.(*types.Pointer); ok && isBigInt(ptr.Elem()) && v.Obj != 0 {
			t := e.bigGet(st, v)
			if t.Op == OpConst {
				return new(big.Int).Set(t.Val), true
			}
			return nil, false
		}
		if iv.T == engineErrorPtrType {
			if s, ok := e.load(st, v).(*Agg).Elems[0].(string); ok {
				return fmt.Errorf("%s", s), true
			}
		}
	case Slice:
		if sl, ok := iv.T.Underlying().(*types.Slice); ok {
			if b, ok := sl.Elem().Underlying().(*types.Basic); ok && b.Kind() == types.Uint8 {
				s, ok := e.bytesToString(st, v)
				if ok {
					return []byte(s), true
				}
			}
		}
	}
	return nil, false
}

func (e *Exec) sprintf(st *State, format Value, argSlice Value) Value {
	f, ok := format.(string)
	if !ok {
		return SymStr{ID: e.TS.Fresh("fmt", SInt)}
	}
	var ifaces []interface{}
	if s, ok := argSlice.(Slice); ok && s.Len > 0 {
		for _, el := range e.sliceElems(st, s) {
			iv, ok := el.(Iface)
			if !ok {
				return e.freshOpaqueStr("fmt")
			}
			nv, ok := e.fmtArg(st, iv)
			if !ok {
				return e.freshOpaqueStr("fmt")
			}
			ifaces = append(ifaces, nv)
		}
	}
	return fmt.Sprintf(f, ifaces...)
}

func (e *Exec) freshOpaqueStr(kind string) Value {
	id := e.TS.Fresh("str_"+kind, SInt)
	e.addDef(e.TS.Lt(id, e.TS.Int64(0)))
	return SymStr{ID: id}
}

func init() {
	R := func(name string, in Intrinsic) { intrinsics[name] = in }
	R("fmt.Sprintf", func(e *Exec, st *State, fn *ssa.Function, args []Value, depth int) []Outcome {
		return ret1(st, e.sprintf(st, args[0], args[1]))
	})
	R("fmt.Errorf", func(e *Exec, st *State, fn *ssa.Function, args []Value, depth int) []Outcome {
		return ret1(st, e.makeError(st, e.sprintf(st, args[0], args[1])))
	})
	R("errors.New", func(e *Exec, st *State, fn *ssa.Function, args []Value, depth int) []Outcome {
		return ret1(st, e.makeError(st, args[0]))
	})
	sprint := func(e *Exec, st *State, fn *ssa.Function, args []Value, depth int) []Outcome {
		var ifaces []interface{}
		if s, ok := args[0].(Slice); ok && s.Len > 0 {
			for _, el := range e.sliceElems(st, s) {
				iv, ok := el.(Iface)
				if !ok {
					return ret1(st, e.freshOpaqueStr("fmt"))
				}
				nv, ok := e.fmtArg(st, iv)
				if !ok {
					return ret1(st, e.freshOpaqueStr("fmt"))
				}
				ifaces = append(ifaces, nv)
			}
		}
		return ret1(st, fmt.Sprint(ifaces...))
	}
	R("fmt.Sprint", sprint)
	noop := func(e *Exec, st *State, fn *ssa.Function, args []Value, depth int) []Outcome {
		return ret1(st, e.zeroResults(fn))
	}
	// fmt.Fprintf into an in-memory buffer is real data flow (store keys are built that way); other writers are logs
	R("fmt.Fprintf", func(e *Exec, st *State, fn *ssa.Function, args []Value, depth int) []Outcome {
		w, ok := args[0].(Iface)
		if ok && w.T != nil {
			ts := w.T.String()
			if ts == "*bytes.Buffer" || ts == "*strings.Builder" {
				str, isStr := e.sprintf(st, args[1], args[2]).(string)
				if !isStr {
					unsupported("fmt.Fprintf of symbolic text into %s", ts)
				}
				m := e.Prog.LookupMethod(w.T, nil, "Write")
				if m == nil {
					unsupported("no Write method on %s", ts)
				}
				return e.callFn(st, m, []Value{w.V, e.stringToBytes(st, str)}, nil, depth+1, nil)
			}
		}
		return ret1(st, e.zeroResults(fn))
	})
	// sync.Map is used as a read-through cache only (poolmanager.cachedPoolModules): modelled as always empty
	R("(*sync.Map).Load", func(e *Exec, st *State, fn *ssa.Function, args []Value, depth int) []Outcome {
		return []Outcome{{Kind: OutReturn, St: st, Ret: Tuple{Iface{}, e.TS.Bool(false)}}}
	})
	for _, n := range []string{"(*sync.Map).Store", "(*sync.Map).Delete"} {
		R(n, noop)
	}
	for _, n := range []string{"fmt.Println", "fmt.Printf", "fmt.Print", "fmt.Fprintln", "fmt.Fprint",
		"(*sync.Mutex).Lock", "(*sync.Mutex).Unlock", "(*sync.RWMutex).Lock", "(*sync.RWMutex).Unlock", "(*sync.RWMutex).RLock", "(*sync.RWMutex).RUnlock",
		"runtime/debug.PrintStack", "log.Printf", "log.Println"} {
		R(n, noop)
	}
	R("runtime/debug.Stack", func(e *Exec, st *State, fn *ssa.Function, args []Value, depth int) []Outcome {
		return ret1(st, e.stringToBytes(st, "<stack>"))
	})
	// strings
	R("strings.Split", nativeFunc(strings.Split))
	R("strings.SplitN", nativeFunc(strings.SplitN))
	R("strings.Join", nativeFunc(strings.Join))
	R("strings.HasPrefix", nativeFunc(strings.HasPrefix))
	R("strings.HasSuffix", nativeFunc(strings.HasSuffix))
	R("strings.Contains", nativeFunc(strings.Contains))
	R("strings.ContainsRune", nativeFunc(strings.ContainsRune))
	R("strings.ContainsAny", nativeFunc(strings.ContainsAny))
	R("strings.Index", nativeFunc(strings.Index))
	R("strings.IndexByte", nativeFunc(strings.IndexByte))
	R("strings.IndexRune", nativeFunc(strings.IndexRune))
	R("strings.LastIndex", nativeFunc(strings.LastIndex))
	R("strings.TrimSpace", nativeFunc(strings.TrimSpace))
	R("strings.Trim", nativeFunc(strings.Trim))
	R("strings.TrimLeft", nativeFunc(strings.TrimLeft))
	R("strings.TrimRight", nativeFunc(strings.TrimRight))
	R("strings.TrimPrefix", nativeFunc(strings.TrimPrefix))
	R("strings.TrimSuffix", nativeFunc(strings.TrimSuffix))
	R("strings.Repeat", nativeFunc(strings.Repeat))
	R("strings.ToLower", nativeFunc(strings.ToLower))
	R("strings.ToUpper", nativeFunc(strings.ToUpper))
	R("strings.Replace", nativeFunc(strings.Replace))
	R("strings.ReplaceAll", nativeFunc(strings.ReplaceAll))
	R("strings.Count", nativeFunc(strings.Count))
	R("strings.Compare", nativeFunc(strings.Compare))
	R("strings.EqualFold", nativeFunc(strings.EqualFold))
	R("strings.Fields", nativeFunc(strings.Fields))
	R("strings.Title", nativeFunc(strings.Title))
	// strconv
	R("strconv.Itoa", nativeFunc(strconv.Itoa))
	R("strconv.Atoi", nativeFunc(strconv.Atoi))
	R("strconv.FormatInt", nativeFunc(strconv.FormatInt))
	R("strconv.FormatUint", nativeFunc(strconv.FormatUint))
	R("strconv.ParseInt", nativeFunc(strconv.ParseInt))
	R("strconv.ParseUint", nativeFunc(strconv.ParseUint))
	R("strconv.ParseFloat", nativeFunc(strconv.ParseFloat))
	R("strconv.ParseBool", nativeFunc(strconv.ParseBool))
	R("strconv.Quote", nativeFunc(strconv.Quote))
	R("strconv.FormatBool", nativeFunc(strconv.FormatBool))
	// bytes
	R("bytes.Compare", nativeFunc(bytes.Compare))
	R("bytes.Equal", nativeFunc(bytes.Equal))
	R("bytes.HasPrefix", nativeFunc(bytes.HasPrefix))
	R("bytes.HasSuffix", nativeFunc(bytes.HasSuffix))
	R("bytes.Contains", nativeFunc(bytes.Contains))
	R("bytes.Index", nativeFunc(bytes.Index))
	R("bytes.IndexByte", nativeFunc(bytes.IndexByte))
	R("bytes.TrimPrefix", nativeFunc(bytes.TrimPrefix))
	// unicode
	R("unicode.IsDigit", nativeFunc(unicode.IsDigit))
	R("unicode.IsLetter", nativeFunc(unicode.IsLetter))
	R("unicode.IsSpace", nativeFunc(unicode.IsSpace))
	R("unicode.IsUpper", nativeFunc(unicode.IsUpper))
	R("unicode.IsLower", nativeFunc(unicode.IsLower))
	R("unicode/utf8.RuneCountInString", nativeFunc(utf8.RuneCountInString))
	R("unicode/utf8.ValidString", nativeFunc(utf8.ValidString))
}

func (e *Exec) patternIntrinsicStd(fn *ssa.Function, name string) Intrinsic {
	if in := e.patternIntrinsicHarness(fn, name); in != nil {
		return in
	}
	return e.envPatternIntrinsic(fn, name)
}

// invokeHook intercepts interface method calls on engine-defined dynamic types.
func (e *Exec) invokeHook(st *State, recv Iface, method *types.Func, args []Value, depth int) []Outcome {
	if recv.T == engineErrorPtrType {
		switch method.Name() {
		case "Error":
			a := e.load(st, recv.V).(*Agg)
			return ret1(st, a.Elems[0])
		}
		unsupported("method %s on engine error", method.Name())
	}
	if recv.T == runtimeErrorType {
		switch method.Name() {
		case "Error":
			return ret1(st, recv.V)
		case "RuntimeError":
			return ret1(st, nil)
		}
	}
	return nil
}

// deepEq builds the condition under which two values of the same static type are reflect.DeepEqual
// (structures of integers, booleans, strings, slices, arrays, structs, pointers and interfaces; nil slices differ from
// empty ones as in reflect).
func (e *Exec) deepEq(st *State, a, b Value, depth int) *Term {
	if depth > 20 {
		unsupported("reflect.DeepEqual on a deep or cyclic value")
	}
	switch x := a.(type) {
	case *Term:
		y, ok := b.(*Term)
		if !ok {
			unsupported("reflect.DeepEqual: %T vs %T", a, b)
		}
		if x.Sort == SBool {
			return e.TS.Iff(x, y)
		}
		return e.TS.Eq(x, y)
	case string:
		y, ok := b.(string)
		if !ok {
			unsupported("reflect.DeepEqual on symbolic strings")
		}
		return e.TS.Bool(x == y)
	case Slice:
		y := b.(Slice)
		if (x.Base.Obj == 0) != (y.Base.Obj == 0) || x.Len != y.Len {
			return e.TS.Bool(false)
		}
		res := e.TS.Bool(true)
		xs, ys := e.sliceElems(st, x), e.sliceElems(st, y)
		for i := range xs {
			res = e.TS.And(res, e.deepEq(st, xs[i], ys[i], depth+1))
		}
		return res
	case *Agg:
		y := b.(*Agg)
		if len(x.Elems) != len(y.Elems) {
			return e.TS.Bool(false)
		}
		res := e.TS.Bool(true)
		for i := range x.Elems {
			res = e.TS.And(res, e.deepEq(st, x.Elems[i], y.Elems[i], depth+1))
		}
		return res
	case Iface:
		y := b.(Iface)
		if x.T == nil || y.T == nil {
			return e.TS.Bool(x.T == nil && y.T == nil)
		}
		if !types.Identical(x.T, y.T) {
			return e.TS.Bool(false)
		}
		return e.deepEq(st, x.V, y.V, depth+1)
	case Ptr:
		y, ok := b.(Ptr)
		if !ok {
			unsupported("reflect.DeepEqual: %T vs %T", a, b)
		}
		if x.Obj == 0 || y.Obj == 0 {
			return e.TS.Bool(x.Obj == 0 && y.Obj == 0)
		}
		if x.Obj == y.Obj && len(x.Path) == len(y.Path) {
			same := true
			for i := range x.Path {
				same = same && x.Path[i] == y.Path[i]
			}
			if same {
				return e.TS.Bool(true)
			}
		}
		return e.deepEq(st, e.load(st, x), e.load(st, y), depth+1)
	case nil:
		return e.TS.Bool(b == nil)
	}
	unsupported("reflect.DeepEqual on %T", a)
	return nil
}

func init() {
	intrinsics["reflect.DeepEqual"] = func(e *Exec, st *State, fn *ssa.Function, args []Value, depth int) []Outcome {
		return ret1(st, e.deepEq(st, args[0], args[1], 0))
	}
}

// encoding/json for the one shape the repository stores that way: slices of unsigned integers (gauge id lists). Concrete
// values are rendered / parsed exactly as encoding/json does ("[1,2]", "[]", "null").
func init() {
	intrinsics["encoding/json.Marshal"] = func(e *Exec, st *State, fn *ssa.Function, args []Value, depth int) []Outcome {
		iv, ok := args[0].(Iface)
		if !ok || iv.T == nil {
			unsupported("json.Marshal of %T", args[0])
		}
		sl, isSl := iv.T.Underlying().(*types.Slice)
		if !isSl {
			unsupported("json.Marshal of %v (only slices of integers are modelled)", iv.T)
		}
		if b, ok := sl.Elem().Underlying().(*types.Basic); !ok || b.Info()&types.IsInteger == 0 || b.Kind() == types.Uint8 {
			unsupported("json.Marshal of %v (only slices of integers are modelled)", iv.T)
		}
		s := iv.V.(Slice)
		if s.Base.Obj == 0 {
			return ret1(st, Tuple{e.stringToBytes(st, "null"), Iface{}})
		}
		var parts []string
		for _, el := range e.sliceElems(st, s) {
			t, ok := el.(*Term)
			if !ok || t.Op != OpConst {
				unsupported("json.Marshal of symbolic integers")
			}
			parts = append(parts, t.Val.String())
		}
		return ret1(st, Tuple{e.stringToBytes(st, "["+strings.Join(parts, ",")+"]"), Iface{}})
	}
	intrinsics["encoding/json.Unmarshal"] = func(e *Exec, st *State, fn *ssa.Function, args []Value, depth int) []Outcome {
		data, ok := args[0].(Slice)
		if !ok {
			unsupported("json.Unmarshal of %T", args[0])
		}
		str, ok := e.bytesToString(st, data)
		if !ok {
			unsupported("json.Unmarshal of symbolic bytes")
		}
		iv, ok := args[1].(Iface)
		if !ok || iv.T == nil {
			unsupported("json.Unmarshal into %T", args[1])
		}
		pt, isPtr := iv.T.Underlying().(*types.Pointer)
		if !isPtr {
			unsupported("json.Unmarshal into non-pointer %v", iv.T)
		}
		sl, isSl := pt.Elem().Underlying().(*types.Slice)
		if !isSl {
			unsupported("json.Unmarshal into %v (only slices of integers are modelled)", iv.T)
		}
		if b, ok := sl.Elem().Underlying().(*types.Basic); !ok || b.Info()&types.IsInteger == 0 || b.Kind() == types.Uint8 {
			unsupported("json.Unmarshal into %v (only slices of integers are modelled)", iv.T)
		}
		str = strings.TrimSpace(str)
		if str == "null" {
			e.store(st, iv.V, Slice{})
			return ret1(st, Iface{})
		}
		if len(str) < 2 || str[0] != '[' || str[len(str)-1] != ']' {
			return ret1(st, e.makeError(st, "json: cannot unmarshal "+str))
		}
		var vals []Value
		body := strings.TrimSpace(str[1 : len(str)-1])
		if body != "" {
			for _, p := range strings.Split(body, ",") {
				v, ok := new(big.Int).SetString(strings.TrimSpace(p), 10)
				if !ok {
					return ret1(st, e.makeError(st, "json: cannot unmarshal "+str))
				}
				vals = append(vals, e.TS.Int(v))
			}
		}
		if len(vals) == 0 {
			id := st.Heap.Alloc(&Agg{}, nil, "emptyslice")
			e.store(st, iv.V, Slice{Base: Ptr{Obj: id}})
			return ret1(st, Iface{})
		}
		e.store(st, iv.V, e.sliceFromValues(st, sl.Elem(), vals))
		return ret1(st, Iface{})
	}
}
