package sym

import (
	"fmt"
	"os"
	"time"
	"go/types"
	"sort"
	"strings"

	"golang.org/x/tools/go/ssa"
)

func (e *Exec) callBuiltin(st *State, b *ssa.Builtin, args []Value, unwinding *panicRec) []Outcome {
	ts := e.TS
	switch b.Name() {
	case "len":
		switch x := args[0].(type) {
		case string:
			return ret1(st, ts.Int64(int64(len(x))))
		case Slice:
			return ret1(st, ts.Int64(int64(x.Len)))
		case *Agg:
			return ret1(st, ts.Int64(int64(len(x.Elems))))
		case MapRef:
			if x.Obj == 0 {
				return ret1(st, ts.Int64(0))
			}
			return ret1(st, ts.Int64(int64(len(st.Heap.get(x.Obj).Root.(*MapVal).V))))
		case SymStr:
			return ret1(st, e.symStrLen(x))
		case Ptr: // pointer to array
			if x.Obj != 0 {
				if a, ok := e.load(st, x).(*Agg); ok {
					return ret1(st, ts.Int64(int64(len(a.Elems))))
				}
			}
		}
		unsupported("len of %T", args[0])
	case "cap":
		switch x := args[0].(type) {
		case Slice:
			return ret1(st, ts.Int64(int64(x.Cap)))
		case *Agg:
			return ret1(st, ts.Int64(int64(len(x.Elems))))
		}
		unsupported("cap of %T", args[0])
	case "append":
		s, ok := args[0].(Slice)
		if !ok {
			unsupported("append to %T", args[0])
		}
		var add []Value
		switch a := args[1].(type) {
		case Slice:
			if a.Len > 0 {
				add = e.sliceElems(st, a)
			}
		case string:
			for i := 0; i < len(a); i++ {
				add = append(add, ts.Int64(int64(a[i])))
			}
		default:
			unsupported("append of %T", args[1])
		}
		if len(add) == 0 {
			return ret1(st, s)
		}
		if s.Base.Obj != 0 && s.Len+len(add) <= s.Cap {
			// in place
			add = append([]Value{}, add...)
			for i, v := range add {
				e.store(st, Ptr{Obj: s.Base.Obj, Path: pathAppend(s.Base.Path, s.Off+s.Len+i)}, v)
			}
			return ret1(st, Slice{Base: s.Base, Off: s.Off, Len: s.Len + len(add), Cap: s.Cap})
		}
		var old []Value
		if s.Len > 0 {
			old = e.sliceElems(st, s)
		}
		n := s.Len + len(add)
		c := 2 * s.Cap
		if c < n {
			c = n
		}
		vals := make([]Value, c)
		copy(vals, old)
		copy(vals[s.Len:], add)
		var elemT types.Type
		if sig, ok := b.Type().(*types.Signature); ok && sig.Results().Len() == 1 {
			if sl, ok := sig.Results().At(0).Type().Underlying().(*types.Slice); ok {
				elemT = sl.Elem()
			}
		}
		if elemT != nil && c > n {
			z := e.zero(elemT)
			for i := n; i < c; i++ {
				vals[i] = z
			}
		} else {
			vals = vals[:n]
			c = n
		}
		id := st.Heap.Alloc(&Agg{Elems: vals}, nil, "append")
		return ret1(st, Slice{Base: Ptr{Obj: id}, Len: n, Cap: c})
	case "copy":
		dst, ok := args[0].(Slice)
		if !ok {
			unsupported("copy to %T", args[0])
		}
		var src []Value
		switch a := args[1].(type) {
		case Slice:
			if a.Len > 0 {
				src = append([]Value{}, e.sliceElems(st, a)...)
			}
		case string:
			for i := 0; i < len(a); i++ {
				src = append(src, ts.Int64(int64(a[i])))
			}
		default:
			unsupported("copy from %T", args[1])
		}
		n := len(src)
		if dst.Len < n {
			n = dst.Len
		}
		for i := 0; i < n; i++ {
			e.store(st, Ptr{Obj: dst.Base.Obj, Path: pathAppend(dst.Base.Path, dst.Off+i)}, src[i])
		}
		return ret1(st, ts.Int64(int64(n)))
	case "delete":
		m := args[0].(MapRef)
		if m.Obj == 0 {
			return ret1(st, nil)
		}
		ks, ok := keyString(args[1])
		if !ok {
			unsupported("symbolic key in delete")
		}
		o := st.Heap.writable(m.Obj)
		mv := o.Root.(*MapVal).clone()
		if _, exists := mv.K[ks]; exists {
			delete(mv.K, ks)
			delete(mv.V, ks)
			nk := mv.Keys[:0:0]
			for _, k := range mv.Keys {
				if k != ks {
					nk = append(nk, k)
				}
			}
			mv.Keys = nk
		}
		o.Root = mv
		return ret1(st, nil)
	case "recover":
		if unwinding != nil && !unwinding.recovered {
			// Note: builtin is called from the deferred function; the frame's recoverable is passed down via callValue
		}
		unsupported("recover outside deferred function frame")
	case "print", "println":
		return ret1(st, nil)
	case "min", "max":
		acc := args[0]
		for _, a := range args[1:] {
			switch x := acc.(type) {
			case *Term:
				y := a.(*Term)
				if b.Name() == "min" {
					acc = ts.Ite(ts.Le(x, y), x, y)
				} else {
					acc = ts.Ite(ts.Ge(x, y), x, y)
				}
			case string:
				y := a.(string)
				if (b.Name() == "min") == (y < x) {
					acc = y
				}
			case float64:
				y := a.(float64)
				if (b.Name() == "min") == (y < x) {
					acc = y
				}
			default:
				unsupported("min/max of %T", acc)
			}
		}
		return ret1(st, acc)
	case "clear":
		switch x := args[0].(type) {
		case MapRef:
			if x.Obj != 0 {
				o := st.Heap.writable(x.Obj)
				o.Root = &MapVal{K: map[string]Value{}, V: map[string]Value{}}
			}
			return ret1(st, nil)
		}
		unsupported("clear of %T", args[0])
	case "ssa:deferstack":
		// defer stacks of range-over-func bodies are not modelled separately: defers run at function exit
		return ret1(st, Ptr{})
	case "ssa:wrapnilchk":
		if p, ok := args[0].(Ptr); ok && p.Obj == 0 {
			return []Outcome{{Kind: OutPanic, St: st, Pan: e.runtimeError("nil pointer dereference (wrapnilchk)")}}
		}
		return ret1(st, args[0])
	}
	unsupported("builtin %s", b.Name())
	return nil
}

func (e *Exec) symStrLen(s SymStr) *Term {
	if t, ok := e.LenOfSym[s.ID.id]; ok {
		return t
	}
	l := e.TS.FreshBounded("strlen", e.TS.Int64(0).Val, nil)
	// empty string is interned; len == 0 iff equal to ""
	e.addDef(e.TS.Iff(e.TS.Eq(l, e.TS.Int64(0)), e.TS.Eq(s.ID, e.internStr(""))))
	e.LenOfSym[s.ID.id] = l
	return l
}

// ---------- feasibility

func pcKey(pc []*Term, c *Term) string {
	ids := make([]int, 0, len(pc)+1)
	for _, t := range pc {
		ids = append(ids, t.id)
	}
	sort.Ints(ids)
	var sb strings.Builder
	for _, i := range ids {
		fmt.Fprintf(&sb, "%d,", i)
	}
	fmt.Fprintf(&sb, "|%d", c.id)
	return sb.String()
}

// feasible reports whether PC ∧ Defs ∧ c may be satisfiable (unknown counts as feasible).
func (e *Exec) feasible(st *State, c *Term) (bool, Result) {
	if c.Op == OpBConst {
		if c.B {
			return true, Sat
		}
		return false, Unsat
	}
	key := pcKey(st.PC, c)
	if r, ok := e.feasCache[key]; ok {
		return r != Unsat, r
	}
	tRel := time.Now()
	var asserts []*Term
	if e.BranchSliceHops > 0 {
		// approximate feasibility: only the conjuncts within a few variable-sharing hops of the condition are used.
		// unsat on a subset of the path condition is still a proof of infeasibility; sat/unknown keeps the branch.
		asserts = append(e.sliceByVars(st.PC, c, e.BranchSliceHops), c)
	} else {
		asserts = e.relevant(append(append([]*Term{}, st.PC...), c))
	}
	if d := time.Since(tRel).Seconds(); d > 0.3 && os.Getenv("GOSYM_PROF") != "" {
		fmt.Fprintf(os.Stderr, "%s slow relevant() %.1fs defs=%d\n", time.Now().Format("15:04:05.000"), d, len(e.Defs))
	}
	tEval := time.Now()
	defer func() {
		if d := time.Since(tEval).Seconds(); d > 3 && os.Getenv("GOSYM_PROF") != "" {
			fmt.Fprintf(os.Stderr, "%s slow feasible() total %.1fs\n", time.Now().Format("15:04:05.000"), d)
		}
	}()
	// cached concrete models: a model satisfying PC, definitions and c proves feasibility without a solver call
	for i := len(e.models) - 1; i >= 0 && i >= len(e.models)-24; i-- {
		m := e.models[i]
		ok := true
		for _, a := range asserts {
			if _, b := Eval(a, m.Ints, m.Bools); !b {
				ok = false
				break
			}
		}
		if ok {
			e.ModelHits++
			e.feasCache[key] = Sat
			return true, Sat
		}
	}
	if d := time.Since(tEval).Seconds(); d > 0.3 && os.Getenv("GOSYM_PROF") != "" {
		fmt.Fprintf(os.Stderr, "%s slow model-cache eval %.1fs models=%d asserts=%d\n", time.Now().Format("15:04:05.000"), d, len(e.models), len(asserts))
	}
	e.BranchQueries++
	if d := os.Getenv("GOSYM_DUMPBRANCH"); d != "" {
		os.MkdirAll(d, 0o755)
		os.WriteFile(fmt.Sprintf("%s/%s_%04d.smt2", d, e.CurHarness, e.BranchQueries), []byte(Script(asserts)+"(check-sat)\n"), 0o644)
	}
	r, model, _, secs := e.Solver.Check(asserts, e.BranchTimeoutMs, true, e.branchSolver())
	if r == Sat && model != nil {
		e.models = append(e.models, model)
	}
	e.BranchSecs += secs
	if (secs > 1.0 || os.Getenv("GOSYM_PROF") == "all") && os.Getenv("GOSYM_PROF") != "" {
		fmt.Fprintf(os.Stderr, "%s slow branch query %.1fs -> %s (pc=%d conjuncts, cond=%s)\n", time.Now().Format("15:04:05.000"), secs, r, len(st.PC), truncate(c.String(), 60))
	}
	e.feasCache[key] = r
	return r != Unsat, r
}

func (e *Exec) branchSolver() string {
	return e.Solver.names[0]
}

func (e *Exec) feasibleBoth(st *State, c *Term) (bool, bool) {
	if e.inInit {
		unsupported("symbolic branch during package init")
	}
	if e.Lazy {
		// lazy mode: explore both sides without asking the solver; infeasible paths only add
		// ite branches under unsatisfiable guards (sound), bounded by the unwinding limit.
		return true, true
	}
	t, rt := e.feasible(st, c)
	if !t {
		// PC is satisfiable by invariant, so the negation must be feasible
		return false, true
	}
	f, _ := e.feasible(st, e.TS.Not(c))
	_ = rt
	return t, f
}

// relevant returns asserts plus the definitions that (transitively) share variables with them.
func (e *Exec) relevant(asserts []*Term) []*Term {
	if len(e.Defs) == 0 {
		return asserts
	}
	vars := map[int]bool{}
	for _, v := range VarsOf(asserts) {
		vars[v.id] = true
	}
	used := make([]bool, len(e.Defs))
	defVars := make([][]*Term, len(e.Defs))
	for i, d := range e.Defs {
		defVars[i] = VarsOf([]*Term{d})
	}
	out := append([]*Term{}, asserts...)
	changed := true
	for changed {
		changed = false
		for i, d := range e.Defs {
			if used[i] {
				continue
			}
			hit := false
			for _, v := range defVars[i] {
				if vars[v.id] {
					hit = true
					break
				}
			}
			if hit {
				used[i] = true
				changed = true
				out = append(out, d)
				for _, v := range defVars[i] {
					vars[v.id] = true
				}
			}
		}
	}
	return out
}
