package sym

import (
	"encoding/json"
	"fmt"
	"math/big"
	"os"
	"os/exec"
	"path/filepath"
	"regexp"
	"sort"
	"strings"
	"sync"
	"time"
)

// PropSpec is /verif/props/<id>.json
type PropSpec struct {
	ID          string      `json:"id"`
	Groups      []GroupSpec `json:"groups"`
	Assumptions []string    `json:"assumptions"`
	Bounds      []string    `json:"bounds"`
	Models      []string    `json:"models"`
	OutOfClaim  []string    `json:"out_of_claim"`
}

type TierSpec struct {
	Funcs       string `json:"funcs"`
	Skip        string `json:"skip"`
	TimeoutMs   int    `json:"timeout_ms"`
	Unwind      int    `json:"unwind"`
	BranchMs    int    `json:"branch_timeout_ms"`
	CrossCheck  bool   `json:"cross_check"`
	Parallel    int    `json:"parallel"`
	Lazy        bool   `json:"lazy"`
	BranchSliceHops int `json:"branch_slice_hops"`
	ExploreSeconds int `json:"explore_seconds"`
}

type GroupSpec struct {
	Name     string   `json:"name"`
	Dir      string   `json:"dir"`     // module directory used for loading and go test
	Pkg      string   `json:"pkg"`     // import path
	PkgDir   string   `json:"pkgdir"`  // directory of the package
	PkgName  string   `json:"pkgname"` // package clause name
	Harness  []string `json:"harness"` // harness files relative to /verif
	Extra    map[string][]string `json:"extra"` // extra overlay: pkgdir -> files (with pkgname given as first element "name=...")
	Init     []string `json:"init"`
	Funcs    string   `json:"funcs"`
	StubTests bool    `json:"stub_tests"`
	Quick    TierSpec `json:"quick"`
	Thorough TierSpec `json:"thorough"`
}

type KnownFinding struct {
	Property string `json:"property"`
	Status   string `json:"status"` // "known" or "fixed"
	Harness  string `json:"harness"`
	Label    string `json:"label"`
	When     string `json:"when"` // SMT-LIB predicate over the harness' nondet variables delimiting the failing input class
	What     string `json:"what"`
	Commit   string `json:"commit,omitempty"`
}

type obligationRecord struct {
	Harness string  `json:"harness"`
	Label   string  `json:"label"`
	Kind    string  `json:"kind"`
	Verdict string  `json:"verdict"`
	Solver  string  `json:"solver"`
	Seconds float64 `json:"seconds"`
	Size    int     `json:"script_bytes"`
	Note    string  `json:"note,omitempty"`
}

type CheckResult struct {
	ExitCode int
}

func verifRoot() string {
	if r := os.Getenv("VERIF_ROOT"); r != "" {
		return r
	}
	return "/verif"
}

// RunCheck runs one property at one tier, writes evidence and prints VIOLATION / KNOWN-FINDING lines.
func RunCheck(propFile, tier string, only string, verbose bool) int {
	t0 := time.Now()
	root := verifRoot()
	var spec PropSpec
	bz, err := os.ReadFile(propFile)
	if err != nil {
		fmt.Println("cannot read prop spec:", err)
		return 2
	}
	if err := json.Unmarshal(bz, &spec); err != nil {
		fmt.Println("bad prop spec:", err)
		return 2
	}
	seed := 0
	fmt.Sscanf(os.Getenv("VERIF_SEED"), "%d", &seed)
	var known []KnownFinding
	if kb, err := os.ReadFile(filepath.Join(root, "known_findings.json")); err == nil {
		json.Unmarshal(kb, &known)
	}
	outDir := filepath.Join(root, "out", spec.ID)
	os.RemoveAll(outDir)
	os.MkdirAll(outDir, 0o755)

	var allObs []*Obligation
	var results []*HarnessResult
	funcsEncoded := map[string]bool{}
	var inconclusive []string
	totalPaths, totalInstrs, totalBranchQ := 0, 0, 0
	loadSecs := 0.0
	numPkgs := 0
	replays := 0
	violations := 0
	var violationLines, knownLines []string
	selftestReplays, selftestAgree := 0, 0
	solverStats := map[string]*SolverStat{}
	var samples []interface{}

	for gi := range spec.Groups {
		g := &spec.Groups[gi]
		ts := g.Quick
		if tier == "thorough" {
			ts = g.Thorough
			if ts.Funcs == "" {
				ts.Funcs = g.Quick.Funcs
			}
			if ts.TimeoutMs == 0 {
				ts.TimeoutMs = 300000
			}
		}
		if ts.TimeoutMs == 0 {
			ts.TimeoutMs = 20000
		}
		if ts.Parallel == 0 {
			ts.Parallel = 12
		}
		funcsRe := g.Funcs
		if ts.Funcs != "" {
			funcsRe = ts.Funcs
		}
		if ts.Funcs == "-" {
			continue // group not part of this tier
		}
		if only != "" {
			funcsRe = only
		}
		re := regexp.MustCompile(funcsRe)
		var skipRe *regexp.Regexp
		if ts.Skip != "" {
			skipRe = regexp.MustCompile(ts.Skip)
		}
		hf := map[string][]string{}
		names := map[string]string{g.PkgDir: g.PkgName}
		for _, h := range g.Harness {
			hf[g.PkgDir] = append(hf[g.PkgDir], filepath.Join(root, h))
		}
		for dir, files := range g.Extra {
			for _, f := range files {
				if strings.HasPrefix(f, "name=") {
					names[dir] = strings.TrimPrefix(f, "name=")
					continue
				}
				hf[dir] = append(hf[dir], filepath.Join(root, f))
			}
		}
		ov, err := BuildOverlay(filepath.Join(root, "harness/vrt/vrt.go"), hf, names)
		if err != nil {
			fmt.Println("overlay error:", err)
			return 2
		}
		l, err := Load(g.Dir, []string{g.Pkg}, ov)
		if err != nil {
			// a tree that does not compile cannot be checked; this is not a property violation
			fmt.Printf("LOAD-ERROR group=%s: %v\n", g.Name, err)
			inconclusive = append(inconclusive, fmt.Sprintf("group %s failed to load: %v", g.Name, err))
			continue
		}
		loadSecs += l.LoadSecs
		numPkgs += l.NumPkgs
		pkg := l.Pkgs[g.Pkg]
		fns := HarnessFuncs(pkg, re)
		if skipRe != nil {
			kept := fns[:0]
			for _, f := range fns {
				if !skipRe.MatchString(f.Name()) {
					kept = append(kept, f)
				}
			}
			fns = kept
		}
		if len(fns) == 0 {
			inconclusive = append(inconclusive, fmt.Sprintf("group %s: no harness functions match %s", g.Name, funcsRe))
			continue
		}
		// explore in parallel
		res := make([]*HarnessResult, len(fns))
		var wg sync.WaitGroup
		sem := make(chan struct{}, ts.Parallel)
		for i, fn := range fns {
			wg.Add(1)
			sem <- struct{}{}
			go func() {
				defer wg.Done()
				defer func() { <-sem }()
				res[i] = RunHarness(l, fn, HarnessConfig{Unwind: ts.Unwind, BranchTimeoutMs: ts.BranchMs, InitPkgs: g.Init, Merge: true, Tier: tier, Lazy: ts.Lazy, BranchSliceHops: ts.BranchSliceHops, ExploreSeconds: exploreBudget(ts, tier)})
				if verbose {
					r := res[i]
					fmt.Printf("explored %s: paths=%d obligations=%d errors=%d (%.1fs, %d branch queries %.1fs)\n", r.Name, r.Paths, len(r.Obligations), len(r.Errors), r.Secs, r.BranchQueries, r.BranchSecs)
					for gname, pkgPath := range r.UninitReads {
						fmt.Printf("  uninitialised global %s (package %s not in the init list)\n", gname, pkgPath)
					}
					for i, o := range r.Observed {
						if i < 40 {
							fmt.Printf("  observed %s = %s\n", o.Label, truncate(o.Val, 300))
						}
					}
				}
			}()
		}
		wg.Wait()
		var groupObs []*Obligation
		for _, r := range res {
			results = append(results, r)
			totalPaths += r.Paths
			totalInstrs += r.Instrs
			totalBranchQ += r.BranchQueries
			for _, f := range r.Funcs {
				funcsEncoded[f] = true
			}
			for _, e := range r.Errors {
				inconclusive = append(inconclusive, r.Name+": "+firstLine(e))
			}
			{
				pk := map[string][]string{}
				for gname, pkgPath := range r.UninitReads {
					pk[pkgPath] = append(pk[pkgPath], gname)
				}
				var pkgs []string
				for pth := range pk {
					pkgs = append(pkgs, pth)
				}
				sort.Strings(pkgs)
				for _, pth := range pkgs {
					sort.Strings(pk[pth])
					inconclusive = append(inconclusive, fmt.Sprintf("%s: uses %s, assigned by the initialiser of %s, which was not interpreted (add the package to the init list)", r.Name, strings.Join(pk[pth], ", "), pth))
				}
			}
			for _, ob := range r.Obligations {
				ob.group = g
			}
			groupObs = append(groupObs, r.Obligations...)
		}
		// known findings with a "when" predicate: split the obligation into the known class and the rest
		var extra []*Obligation
		for _, ob := range groupObs {
			if ob.Kind != "assert" || ob.Trivial {
				continue
			}
			for ki := range known {
				k := &known[ki]
				if k.Status == "known" && k.Property == spec.ID && k.Harness == ob.Harness && k.Label == ob.Label && k.When != "" {
					in := *ob
					in.Script = ob.Script + "(assert " + k.When + ")\n"
					in.knownClass = k
					ob.Script = ob.Script + "(assert (not " + k.When + "))\n"
					ob.excluded = append(ob.excluded, k)
					extra = append(extra, &in)
				}
			}
		}
		groupObs = append(groupObs, extra...)
		st := SolveAll(groupObs, 8, ts.TimeoutMs, nil, ts.CrossCheck)
		for n, s := range st {
			if solverStats[n] == nil {
				solverStats[n] = &SolverStat{}
			}
			solverStats[n].Queries += s.Queries
			solverStats[n].Wins += s.Wins
			solverStats[n].Seconds += s.Seconds
			solverStats[n].Errors += s.Errors
		}
		allObs = append(allObs, groupObs...)

		// translator validation: one concrete reachability model per harness is run natively; the native run must
		// not fail any assertion that the symbolic run discharged for all inputs
		if os.Getenv("VERIF_NO_SELFTEST") == "" {
			var rp *replayer
			doneH := map[string]bool{}
			for _, ob := range groupObs {
				if ob.Kind != "reach" || ob.Result != Sat || doneH[ob.Harness] {
					continue
				}
				if ob.Model == nil && len(ob.Vars) > 0 {
					continue
				}
				harnessClean := true
				for _, o2 := range groupObs {
					if o2.Harness == ob.Harness && o2.Kind == "assert" && o2.Result != Unsat {
						harnessClean = false
					}
				}
				if !harnessClean {
					continue
				}
				if rp == nil {
					var err error
					rp, err = newReplayer(root, g, fns, outDir)
					if err != nil {
						inconclusive = append(inconclusive, "translator validation: replay build failed: "+firstLine(err.Error()))
						break
					}
				}
				doneH[ob.Harness] = true
				p := filepath.Join(outDir, ob.Harness+".reach.json")
				writeCex(p, spec.ID, ob)
				out := rp.run(ob.Harness, p)
				selftestReplays++
				switch {
				case strings.Contains(firstVerifLine(out), "VERIF-ASSERT-FAIL") || strings.Contains(firstVerifLine(out), "VERIF-PANIC"):
					inconclusive = append(inconclusive, fmt.Sprintf("translator validation: native run of %s on a reachability model disagrees with the symbolic verdict: %s", ob.Harness, firstVerifLine(out)))
					os.WriteFile(p+".replay.txt", []byte(out), 0o644)
				default:
					selftestAgree++
				}
			}
		}

		// replay satisfiable assertion obligations natively
		var cexObs []*Obligation
		for _, ob := range groupObs {
			if ob.Kind == "assert" && ob.Result == Sat {
				cexObs = append(cexObs, ob)
			}
		}
		if len(cexObs) > 0 {
			rp, err := newReplayer(root, g, fns, outDir)
			if err != nil {
				inconclusive = append(inconclusive, "replay build failed: "+firstLine(err.Error()))
				for _, ob := range cexObs {
					ob.Note = "counterexample not replayed (replay build failed)"
				}
			} else {
				// one replay per (harness,label,class): the first model is enough to decide the report
				seen := map[string]bool{}
				for i, ob := range cexObs {
					key := ob.Harness + "|" + ob.Label
					if ob.knownClass != nil {
						key += "|known:" + ob.knownClass.When
					}
					if seen[key] {
						ob.Note = "duplicate of an already replayed counterexample"
						continue
					}
					cexPath := filepath.Join(outDir, fmt.Sprintf("%s.%d.cex.json", ob.Harness, i))
					writeCex(cexPath, spec.ID, ob)
					ok, out := rp.replay(ob, cexPath)
					replays++
					os.WriteFile(cexPath+".replay.txt", []byte(out), 0o644)
					if !ok {
						ob.Note = "counterexample did not reproduce natively (encoder/model imprecision): inconclusive"
						inconclusive = append(inconclusive, fmt.Sprintf("%s/%s: solver model did not reproduce natively", ob.Harness, ob.Label))
						continue
					}
					seen[key] = true
					ob.confirmed = true
					if ob.knownClass != nil {
						knownLines = append(knownLines, fmt.Sprintf("KNOWN-FINDING: property=%s %s [%s/%s when %s] replay=%s", spec.ID, ob.knownClass.What, ob.Harness, ob.Label, ob.knownClass.When, cexPath))
						continue
					}
					matched := false
					for ki := range known {
						k := &known[ki]
						if k.Status == "known" && k.Property == spec.ID && k.Harness == ob.Harness && k.Label == ob.Label && k.When == "" {
							knownLines = append(knownLines, fmt.Sprintf("KNOWN-FINDING: property=%s %s [%s/%s] replay=%s", spec.ID, k.What, ob.Harness, ob.Label, cexPath))
							matched = true
						}
					}
					if !matched {
						violations++
						violationLines = append(violationLines, fmt.Sprintf("VIOLATION property=%s replay=%s", spec.ID, cexPath))
						fmt.Printf("  failing obligation: %s/%s  inputs: %s\n", ob.Harness, ob.Label, modelSummary(ob.Model))
					}
				}
			}
		}
	}

	// summarise obligations
	nOb, nDis, nTrivial, nUnknown, nReachOK, nReachBad := 0, 0, 0, 0, 0, 0
	replays += selftestReplays
	_ = selftestAgree
	reachOK := map[string]bool{}
	reachBad := map[string]string{}
	var recs []obligationRecord
	for _, ob := range allObs {
		rec := obligationRecord{Harness: ob.Harness, Label: ob.Label, Kind: ob.Kind, Verdict: ob.Result.String(), Solver: ob.Solver, Seconds: round3(ob.Secs), Size: len(ob.Script), Note: ob.Note}
		if ob.knownClass != nil {
			rec.Label += " [known class]"
		}
		recs = append(recs, rec)
		switch ob.Kind {
		case "reach":
			if ob.Result == Sat {
				nReachOK++
				reachOK[ob.Harness] = true
			} else {
				reachBad[ob.Harness] = fmt.Sprintf("%s/%s: reachability witness not satisfiable (%s) - harness may be vacuous", ob.Harness, ob.Label, ob.Result)
			}
		case "assert":
			if ob.knownClass != nil {
				continue
			}
			nOb++
			switch ob.Result {
			case Unsat:
				nDis++
				if ob.Trivial {
					nTrivial++
				}
			case Unknown:
				nUnknown++
				inconclusive = append(inconclusive, fmt.Sprintf("%s/%s: solver gave no verdict within the time cap (%s)", ob.Harness, ob.Label, ob.Note))
			}
		}
	}
	// a harness is vacuous only if none of its reachability twins (one per path) is satisfiable
	for _, r := range results {
		if !reachOK[r.Name] {
			nReachBad++
			msg := reachBad[r.Name]
			if msg == "" {
				msg = r.Name + ": no reachability twin was produced - harness may be vacuous"
			}
			inconclusive = append(inconclusive, msg)
		}
	}
	nontrivial := 0
	seenGoal := map[string]bool{}
	for _, ob := range allObs {
		if ob.Kind == "assert" && !ob.Trivial && ob.knownClass == nil && reachOK[ob.Harness] {
			k := ob.Harness + "|" + ob.Label
			if !seenGoal[k] {
				seenGoal[k] = true
				nontrivial++
			}
		}
	}
	// samples: a few obligations and reachability models
	for _, ob := range allObs {
		if len(samples) >= 12 {
			break
		}
		if ob.Kind == "reach" && ob.Model != nil {
			samples = append(samples, map[string]interface{}{"harness": ob.Harness, "kind": "reachability witness (concrete inputs reaching the assertions)", "inputs": modelMap(ob.Model)})
		}
	}
	for _, r := range recs {
		if len(samples) >= 24 {
			break
		}
		if r.Kind == "assert" && r.Solver != "fold" {
			samples = append(samples, r)
		}
	}
	if len(samples) == 0 {
		for _, r := range recs {
			samples = append(samples, r)
			if len(samples) > 5 {
				break
			}
		}
	}
	var fe []string
	for f := range funcsEncoded {
		fe = append(fe, f)
	}
	sort.Strings(fe)
	var hsum []map[string]interface{}
	for _, r := range results {
		hsum = append(hsum, map[string]interface{}{"harness": r.Name, "paths": r.Paths, "returned": r.Returned, "pruned": r.Pruned, "ssa_instructions": r.Instrs, "branch_queries": r.BranchQueries, "obligations": len(r.Obligations), "explore_seconds": round3(r.Secs), "inconclusive": len(r.Errors)})
	}
	sstats := map[string]interface{}{}
	totalSolver := 0.0
	for n, s := range solverStats {
		sstats[n] = map[string]interface{}{"queries": s.Queries, "first_definitive": s.Wins, "seconds": round3(s.Seconds), "errors": s.Errors}
		totalSolver += s.Seconds
	}
	dedupInc := dedup(inconclusive)
	if dedupInc == nil {
		dedupInc = []string{}
	}
	ev := map[string]interface{}{
		"property_id": spec.ID,
		"tier":        tier,
		"seed":        seed,
		"level":       "model_checking",
		"wall_s":      round3(time.Since(t0).Seconds()),
		"violations":  violations,
		"assumptions": append(append([]string{}, spec.Assumptions...), spec.Models...),
		"coverage": map[string]interface{}{
			"states":                        maxInt(totalPaths, 1),
			"transitions":                   maxInt(totalInstrs, 1),
			"traces_validated_against_impl": replays,
			"translator_validation_runs":    selftestReplays,
			"translator_validation_agree":   selftestAgree,
			"samples":                       samples,
			"evaluations":                   len(allObs) + totalBranchQ,
			"distinct_nontrivial":           nontrivial,
			"rule":                          "evaluations = solver queries (obligations + branch-feasibility queries); distinct_nontrivial = distinct (harness,label) assertion goals that needed a solver (not constant-folded) in harnesses whose reachability twin was sat",
			"obligations":                   nOb,
			"discharged":                    nDis,
			"discharged_by_constant_folding": nTrivial,
			"undecided":                     nUnknown,
			"reachability_twins_sat":        nReachOK,
			"reachability_twins_failed":     nReachBad,
			"inconclusive":                  dedupInc,
			"functions_encoded":             fe,
			"harnesses":                     hsum,
			"bounds":                        spec.Bounds,
			"out_of_claim":                  spec.OutOfClaim,
			"solver_seconds":                round3(totalSolver),
			"solvers":                       sstats,
			"packages_loaded":               numPkgs,
			"load_seconds":                  round3(loadSecs),
			"known_findings_reported":       len(knownLines),
			"obligation_records":            capRecords(recs, 400),
			"obligation_summary":            summariseRecords(recs),
			"explanation":                   "bounded symbolic execution of the repository's go/ssa by gosym; every assertion reached becomes an SMT query (path condition AND definitions AND NOT goal) decided by a z3 4.8.12 / z3 5.1.0 / cvc5 1.0 portfolio; unsat = holds for all inputs within the stated bounds; sat models are replayed natively before being reported",
		},
	}
	os.MkdirAll(filepath.Join(root, "evidence"), 0o755)
	eb, _ := json.MarshalIndent(ev, "", " ")
	os.WriteFile(filepath.Join(root, "evidence", spec.ID+".json"), eb, 0o644)

	for _, l := range knownLines {
		fmt.Println(l)
	}
	for _, l := range violationLines {
		fmt.Println(l)
	}
	fmt.Printf("property=%s tier=%s obligations=%d discharged=%d undecided=%d violations=%d known=%d inconclusive_items=%d paths=%d wall=%.1fs\n",
		spec.ID, tier, nOb, nDis, nUnknown, violations, len(knownLines), len(dedupInc), totalPaths, time.Since(t0).Seconds())
	if verbose {
		for _, s := range dedupInc {
			fmt.Println("  inconclusive:", s)
		}
	}
	if violations > 0 {
		return 1
	}
	return 0
}

func maxInt(a, b int) int {
	if a > b {
		return a
	}
	return b
}

func round3(f float64) float64 { return float64(int(f*1000+0.5)) / 1000 }

func firstLine(s string) string {
	if i := strings.Index(s, "\n"); i >= 0 {
		return s[:i]
	}
	return s
}

func dedup(in []string) []string {
	seen := map[string]bool{}
	var out []string
	for _, s := range in {
		if !seen[s] {
			seen[s] = true
			out = append(out, s)
		}
	}
	return out
}

func modelMap(m *Model) map[string]string {
	out := map[string]string{}
	if m == nil {
		return out
	}
	for k, v := range m.Ints {
		if !strings.Contains(k, "!") {
			out[k] = v.String()
		}
	}
	for k, v := range m.Bools {
		if !strings.Contains(k, "!") {
			if v {
				out[k] = "1"
			} else {
				out[k] = "0"
			}
		}
	}
	return out
}

func modelSummary(m *Model) string {
	mm := modelMap(m)
	keys := make([]string, 0, len(mm))
	for k := range mm {
		keys = append(keys, k)
	}
	sort.Strings(keys)
	var parts []string
	for _, k := range keys {
		v := mm[k]
		if len(v) > 60 {
			v = v[:28] + "..." + v[len(v)-28:]
		}
		parts = append(parts, k+"="+v)
	}
	return strings.Join(parts, " ")
}

func writeCex(path, prop string, ob *Obligation) {
	doc := map[string]interface{}{
		"property": prop,
		"harness":  ob.Harness,
		"label":    ob.Label,
		"values":   modelMap(ob.Model),
		"solver":   ob.Solver,
	}
	b, _ := json.MarshalIndent(doc, "", " ")
	os.WriteFile(path, b, 0o644)
}

// ---------- native replay

type replayer struct {
	bin string
	dir string
}

func newReplayer(root string, g *GroupSpec, fns interface{}, outDir string) (*replayer, error) {
	tmp := filepath.Join(outDir, "replay_"+g.Name)
	os.MkdirAll(tmp, 0o755)
	overlay := map[string]string{}
	rt, err := os.ReadFile(filepath.Join(root, "harness/vrt/vrt.go"))
	if err != nil {
		return nil, err
	}
	writeOv := func(pkgDir, pkgName, base string, content []byte) {
		real := filepath.Join(tmp, strings.ReplaceAll(strings.TrimPrefix(pkgDir, "/"), "/", "_")+"__"+base)
		os.WriteFile(real, content, 0o644)
		overlay[filepath.Join(pkgDir, base)] = real
	}
	names := map[string]string{g.PkgDir: g.PkgName}
	files := map[string][]string{}
	for _, h := range g.Harness {
		files[g.PkgDir] = append(files[g.PkgDir], filepath.Join(root, h))
	}
	for dir, fl := range g.Extra {
		for _, f := range fl {
			if strings.HasPrefix(f, "name=") {
				names[dir] = strings.TrimPrefix(f, "name=")
				continue
			}
			files[dir] = append(files[dir], filepath.Join(root, f))
		}
	}
	var harnessNames []string
	reFn := regexp.MustCompile(`(?m)^func (VH_\w+)\(\)`)
	for dir, fl := range files {
		writeOv(dir, names[dir], "zz_verif_rt.go", rewritePackageClause(rt, names[dir]))
		for _, f := range fl {
			src, err := os.ReadFile(f)
			if err != nil {
				return nil, err
			}
			base, src2 := SharedHarnessFile(f, src, names[dir])
			writeOv(dir, names[dir], base, src2)
			if dir == g.PkgDir {
				for _, m := range reFn.FindAllStringSubmatch(string(src), -1) {
					harnessNames = append(harnessNames, m[1])
				}
			}
		}
	}
	var sb strings.Builder
	fmt.Fprintf(&sb, "package %s\n\nimport (\n\t\"os\"\n\t\"testing\"\n)\n\nvar vHarnessTable = map[string]func(){\n", g.PkgName)
	for _, n := range harnessNames {
		fmt.Fprintf(&sb, "\t%q: %s,\n", n, n)
	}
	sb.WriteString("}\n\nfunc TestVerifReplay(t *testing.T) {\n\tname := os.Getenv(\"VERIF_HARNESS\")\n\th, ok := vHarnessTable[name]\n\tif !ok {\n\t\tt.Fatalf(\"unknown harness %s\", name)\n\t}\n\tvRunReplay(name, h)\n}\n")
	writeOv(g.PkgDir, g.PkgName, "zz_verif_replay_test.go", []byte(sb.String()))
	if g.StubTests {
		ents, _ := os.ReadDir(g.PkgDir)
		rePkg := regexp.MustCompile(`(?m)^package\s+(\w+)`)
		for _, en := range ents {
			if strings.HasSuffix(en.Name(), "_test.go") && !strings.HasPrefix(en.Name(), "zz_verif") {
				src, _ := os.ReadFile(filepath.Join(g.PkgDir, en.Name()))
				m := rePkg.FindSubmatch(src)
				if m != nil {
					writeOv(g.PkgDir, g.PkgName, en.Name(), []byte("package "+string(m[1])+"\n"))
				}
			}
		}
	}
	// statik stub so that packages depending on the app compile
	statik := "/repo/client/docs/statik/statik.go"
	if st, err := os.Stat(statik); err == nil && st.Size() < 64 {
		real := filepath.Join(tmp, "statik_stub.go")
		os.WriteFile(real, []byte("package statik\n"), 0o644)
		overlay[statik] = real
	}
	ovDoc := map[string]interface{}{"Replace": overlay}
	ob, _ := json.Marshal(ovDoc)
	ovPath := filepath.Join(tmp, "overlay.json")
	os.WriteFile(ovPath, ob, 0o644)
	bin := filepath.Join(tmp, "replay.test")
	cmd := exec.Command("go", "test", "-c", "-vet=off", "-overlay", ovPath, "-o", bin, g.Pkg)
	cmd.Dir = g.Dir
	cmd.Env = cleanEnv()
	out, err := cmd.CombinedOutput()
	if err != nil {
		return nil, fmt.Errorf("go test -c failed: %v: %s", err, truncate(string(out), 2000))
	}
	return &replayer{bin: bin, dir: g.PkgDir}, nil
}

func (r *replayer) run(harness, cexPath string) string {
	cmd := exec.Command(r.bin, "-test.run", "^TestVerifReplay$", "-test.v", "-test.timeout", "120s")
	cmd.Dir = r.dir
	cmd.Env = append(cleanEnv(), "VERIF_CEX="+cexPath, "VERIF_HARNESS="+harness)
	out, _ := cmd.CombinedOutput()
	return string(out)
}

func firstVerifLine(out string) string {
	for _, line := range strings.Split(out, "\n") {
		line = strings.TrimSpace(line)
		if strings.HasPrefix(line, "VERIF-ASSERT-FAIL") || strings.HasPrefix(line, "VERIF-PANIC") || strings.HasPrefix(line, "VERIF-ASSUME-FAIL") || strings.HasPrefix(line, "VERIF-DONE") {
			return line
		}
	}
	return ""
}

// replay runs the harness natively on the counterexample; it reports whether the same assertion fails.
func (r *replayer) replay(ob *Obligation, cexPath string) (bool, string) {
	s := r.run(ob.Harness, cexPath)
	// the counterexample fixes only the variables of its own query: what happens after the failing assertion
	// (later assumptions on other variables) is irrelevant, what happens before it is not
	for _, line := range strings.Split(s, "\n") {
		line = strings.TrimSpace(line)
		if strings.HasPrefix(line, "VERIF-ASSUME-FAIL") {
			return false, s
		}
		if strings.HasPrefix(ob.Label, "no-uncaught-panic") {
			if strings.HasPrefix(line, "VERIF-PANIC "+ob.Harness) {
				// the native panic must be the one the symbolic run saw (when its message is a concrete string)
				if m := panicMsgRe.FindStringSubmatch(ob.Label); m != nil && !strings.Contains(line, m[1]) {
					return false, s
				}
				return true, s
			}
			continue
		}
		if line == "VERIF-ASSERT-FAIL "+ob.Label {
			return true, s
		}
	}
	return false, s
}

var panicMsgRe = regexp.MustCompile(`\("([^"]{4,})"\)`)

var _ = big.NewInt

func exploreBudget(ts TierSpec, tier string) int {
	if ts.ExploreSeconds > 0 {
		return ts.ExploreSeconds
	}
	if tier == "thorough" {
		return 7200
	}
	return 900
}

// capRecords keeps the evidence file small: at most max individual records (solver-decided ones first).
func capRecords(recs []obligationRecord, max int) []obligationRecord {
	if len(recs) <= max {
		return recs
	}
	var out []obligationRecord
	for _, r := range recs {
		if r.Solver != "fold" && len(out) < max {
			out = append(out, r)
		}
	}
	for _, r := range recs {
		if r.Solver == "fold" && len(out) < max {
			out = append(out, r)
		}
	}
	return out
}

// summariseRecords aggregates all obligations per (harness, label, verdict).
func summariseRecords(recs []obligationRecord) []map[string]interface{} {
	type key struct{ h, l, v string }
	cnt := map[key]int{}
	secs := map[key]float64{}
	var order []key
	for _, r := range recs {
		k := key{r.Harness, r.Label, r.Verdict}
		if _, ok := cnt[k]; !ok {
			order = append(order, k)
		}
		cnt[k]++
		secs[k] += r.Seconds
	}
	var out []map[string]interface{}
	for _, k := range order {
		if len(out) >= 600 {
			break
		}
		out = append(out, map[string]interface{}{"harness": k.h, "label": k.l, "verdict": k.v, "count": cnt[k], "solver_seconds": round3(secs[k])})
	}
	return out
}

// RunReplay re-runs a recorded counterexample (out/<id>/<harness>.<n>.cex.json, or a copy of it) natively against the
// current /repo tree: the harness is compiled into the package's test binary through overlays and executed with the
// recorded values. Exit 1 with a VIOLATION line when the assertion fails again, 0 when it does not.
func RunReplay(propFile, cexPath string) int {
	root := verifRoot()
	var spec PropSpec
	bz, err := os.ReadFile(propFile)
	if err != nil {
		fmt.Println("cannot read prop spec:", err)
		return 2
	}
	if err := json.Unmarshal(bz, &spec); err != nil {
		fmt.Println("bad prop spec:", err)
		return 2
	}
	var cex struct {
		Harness string `json:"harness"`
		Label   string `json:"label"`
	}
	cb, err := os.ReadFile(cexPath)
	if err != nil {
		fmt.Println("cannot read counterexample:", err)
		return 2
	}
	if err := json.Unmarshal(cb, &cex); err != nil || cex.Harness == "" {
		fmt.Println("not a counterexample file:", cexPath)
		return 2
	}
	abs, _ := filepath.Abs(cexPath)
	outDir, err := os.MkdirTemp("", "gosym-replay-")
	if err != nil {
		fmt.Println(err)
		return 2
	}
	defer os.RemoveAll(outDir)
	reFn := regexp.MustCompile(`(?m)^func ` + regexp.QuoteMeta(cex.Harness) + `\(\)`)
	for i := range spec.Groups {
		g := &spec.Groups[i]
		found := false
		for _, h := range g.Harness {
			src, _ := os.ReadFile(filepath.Join(root, h))
			if reFn.Match(src) {
				found = true
			}
		}
		if !found {
			continue
		}
		rp, err := newReplayer(root, g, nil, outDir)
		if err != nil {
			fmt.Println("cannot build the replay binary:", err)
			return 2
		}
		out := rp.run(cex.Harness, abs)
		fmt.Print(out)
		if strings.Contains(out, "VERIF-ASSERT-FAIL") || strings.Contains(out, "VERIF-PANIC") {
			fmt.Printf("VIOLATION property=%s replay=%s\n", spec.ID, cexPath)
			return 1
		}
		fmt.Printf("counterexample does not reproduce on the current tree (harness %s)\n", cex.Harness)
		return 0
	}
	fmt.Printf("harness %s is not part of property %s\n", cex.Harness, spec.ID)
	return 2
}
