package sym

import (
	"fmt"
	"go/types"
	"math/big"
	"strings"

	"golang.org/x/tools/go/ssa"
)

// Obligation is one verification condition produced by a harness.
type Obligation struct {
	Harness string
	Label   string
	Kind    string // "assert" or "reach"
	PC      []*Term
	Goal    *Term // for assert: the asserted condition; for reach: nil
	Asserts []*Term
	Script  string
	Vars    []*Term
	// results
	Result Result
	Solver string
	Secs   float64
	Model  *Model
	Note   string
	Trivial bool
	Pos    string
	FreshDefs  map[string]*FreshDef
	group      *GroupSpec
	knownClass *KnownFinding
	excluded   []*KnownFinding
	confirmed  bool
}

func isHarnessRT(fn *ssa.Function) bool {
	if fn.Pkg == nil && fn.Origin() != nil {
		fn = fn.Origin()
	}
	if fn.Prog == nil {
		return false
	}
	pos := fn.Prog.Fset.Position(fn.Pos())
	return strings.Contains(pos.Filename, "zz_verif_rt")
}

func (e *Exec) nameArg(v Value) string {
	s, ok := v.(string)
	if !ok {
		unsupported("nondet name must be a concrete string")
	}
	return s
}

func (e *Exec) nondetInt(name string, lo, hi *big.Int) *Term {
	if c, ok := e.Concrete[name]; ok {
		return e.TS.Int(c)
	}
	if lo == nil && hi == nil {
		return e.TS.Var(name, SInt)
	}
	return e.TS.BoundedVar(name, lo, hi)
}

func (e *Exec) patternIntrinsicHarness(fn *ssa.Function, name string) Intrinsic {
	n := fn.Name()
	if !strings.HasPrefix(n, "v") || !isHarnessRT(fn) {
		return nil
	}
	switch n {
	case "vNondetBig":
		return func(e *Exec, st *State, fn *ssa.Function, args []Value, depth int) []Outcome {
			return ret1(st, e.newBig(st, e.nondetInt(e.nameArg(args[0]), nil, nil)))
		}
	case "vNondetI64":
		return func(e *Exec, st *State, fn *ssa.Function, args []Value, depth int) []Outcome {
			lo, hi := intRange(64, true)
			return ret1(st, e.nondetInt(e.nameArg(args[0]), lo, hi))
		}
	case "vNondetU64":
		return func(e *Exec, st *State, fn *ssa.Function, args []Value, depth int) []Outcome {
			lo, hi := intRange(64, false)
			return ret1(st, e.nondetInt(e.nameArg(args[0]), lo, hi))
		}
	case "vNondetRange":
		return func(e *Exec, st *State, fn *ssa.Function, args []Value, depth int) []Outcome {
			lo := args[1].(*Term)
			hi := args[2].(*Term)
			if lo.Op != OpConst || hi.Op != OpConst {
				unsupported("vNondetRange bounds must be concrete")
			}
			return ret1(st, e.nondetInt(e.nameArg(args[0]), lo.Val, hi.Val))
		}
	case "vNondetBigRange":
		return func(e *Exec, st *State, fn *ssa.Function, args []Value, depth int) []Outcome {
			lo, hi := e.bigGet(st, args[1]), e.bigGet(st, args[2])
			if lo.Op != OpConst || hi.Op != OpConst {
				unsupported("vNondetBigRange bounds must be concrete")
			}
			return ret1(st, e.newBig(st, e.nondetInt(e.nameArg(args[0]), lo.Val, hi.Val)))
		}
	case "vNondetBool":
		return func(e *Exec, st *State, fn *ssa.Function, args []Value, depth int) []Outcome {
			name := e.nameArg(args[0])
			if c, ok := e.Concrete[name]; ok {
				return ret1(st, e.TS.Bool(c.Sign() != 0))
			}
			return ret1(st, e.TS.Var(name, SBool))
		}
	case "vNondetStr":
		return func(e *Exec, st *State, fn *ssa.Function, args []Value, depth int) []Outcome {
			name := e.nameArg(args[0])
			return ret1(st, SymStr{ID: e.TS.Var("str:"+name, SInt)})
		}
	case "vNondetAddr":
		// an arbitrary account address (as a string) out of four distinct valid addresses
		return func(e *Exec, st *State, fn *ssa.Function, args []Value, depth int) []Outcome {
			name := e.nameArg(args[0])
			if c, ok := e.Concrete["addr:"+name]; ok {
				return ret1(st, SymStr{ID: e.TS.Int(c)})
			}
			return ret1(st, SymStr{ID: e.TS.BoundedVar("addr:"+name, big.NewInt(1000000), big.NewInt(1000003))})
		}
	case "vNondetTime":
		return func(e *Exec, st *State, fn *ssa.Function, args []Value, depth int) []Outcome {
			return ret1(st, e.nondetInt(e.nameArg(args[0]), nil, nil))
		}
	case "vChoose":
		return func(e *Exec, st *State, fn *ssa.Function, args []Value, depth int) []Outcome {
			name := e.nameArg(args[0])
			n := e.concreteInt(args[1], "vChoose n")
			if c, ok := e.Concrete[name]; ok {
				return ret1(st, e.TS.Int(c))
			}
			v := e.TS.BoundedVar(name, big.NewInt(0), big.NewInt(int64(n-1)))
			var outs []Outcome
			for i := 0; i < n; i++ {
				s2 := st
				if i < n-1 {
					s2 = st.Fork()
				}
				s2.PC = append(s2.PC, e.TS.Eq(v, e.TS.Int64(int64(i))))
				s2.SplitTag += fmt.Sprintf("%s=%d;", name, i)
				outs = append(outs, Outcome{Kind: OutReturn, St: s2, Ret: e.TS.Int64(int64(i))})
			}
			return outs
		}
	case "vAssume":
		return func(e *Exec, st *State, fn *ssa.Function, args []Value, depth int) []Outcome {
			c := e.boolTerm(args[0])
			if c.Op == OpBConst {
				if c.B {
					return ret1(st, nil)
				}
				return []Outcome{{Kind: OutPruned, St: st, Why: "assume false"}}
			}
			st.PC = append(st.PC, c)
			return ret1(st, nil)
		}
	case "vAssert":
		return func(e *Exec, st *State, fn *ssa.Function, args []Value, depth int) []Outcome {
			c := e.boolTerm(args[0])
			label := e.nameArg(args[1])
			e.addObligation(st, "assert", label, c)
			if c.Op == OpBConst && !c.B {
				return []Outcome{{Kind: OutPruned, St: st, Why: "assert false"}}
			}
			if c.Op != OpBConst {
				st.PC = append(st.PC, c)
			}
			return ret1(st, nil)
		}
	case "vReach":
		return func(e *Exec, st *State, fn *ssa.Function, args []Value, depth int) []Outcome {
			e.addObligation(st, "reach", e.nameArg(args[0]), nil)
			return ret1(st, nil)
		}
	case "vObserve":
		return func(e *Exec, st *State, fn *ssa.Function, args []Value, depth int) []Outcome {
			label := e.nameArg(args[0])
			e.Observed = append(e.Observed, Observation{Label: label, Val: e.observeString(st, args[1])})
			return ret1(st, nil)
		}
	case "vPanics":
		return func(e *Exec, st *State, fn *ssa.Function, args []Value, depth int) []Outcome {
			outs := e.callValue(st, args[0], nil, nil, depth+1, nil)
			var res []Outcome
			for _, o := range outs {
				switch o.Kind {
				case OutReturn:
					res = append(res, Outcome{Kind: OutReturn, St: o.St, Ret: e.TS.Bool(false)})
				case OutPanic:
					res = append(res, Outcome{Kind: OutReturn, St: o.St, Ret: e.TS.Bool(true)})
				default:
					res = append(res, o)
				}
			}
			return res
		}
	case "vScope":
		// vScope(f): run f, then forget the assumptions (path-condition conjuncts) added inside it.
		// Obligations raised inside keep them; later code runs under the weaker condition (sound over-approximation).
		return func(e *Exec, st *State, fn *ssa.Function, args []Value, depth int) []Outcome {
			n := len(st.PC)
			outs := e.callValue(st, args[0], nil, nil, depth+1, nil)
			var res []Outcome
			for _, o := range outs {
				if o.Kind == OutReturn || o.Kind == OutPanic {
					if len(o.St.PC) >= n {
						o.St.PC = append([]*Term{}, o.St.PC[:n]...)
					}
				}
				if o.Kind == OutPruned {
					// an assumption failed inside the scope: only the scope is abandoned
					o.St.PC = append([]*Term{}, o.St.PC[:min(n, len(o.St.PC))]...)
					res = append(res, Outcome{Kind: OutReturn, St: o.St})
					continue
				}
				res = append(res, o)
			}
			if len(res) > 1 {
				res = e.mergeOutcomes(n, res)
			}
			return res
		}
	case "vConfig":
		return func(e *Exec, st *State, fn *ssa.Function, args []Value, depth int) []Outcome {
			key := e.nameArg(args[0])
			val := e.concreteInt(args[1], "vConfig value")
			switch key {
			case "unwind":
				e.Unwind = val
			case "merge":
				e.Merge = val != 0
			case "branch_timeout_ms":
				e.BranchTimeoutMs = val
			case "branch_slice_hops":
				e.BranchSliceHops = val
			case "lazy":
				e.Lazy = val != 0
			case "lazy_math":
				e.LazyMath = val != 0
			case "bitlen_dense":
				e.BitLenDense = val
			default:
				unsupported("unknown vConfig key %s", key)
			}
			return ret1(st, nil)
		}
	case "vOverride":
		// vOverride(name, fn): from now on calls to the function called name run fn instead (contract stub).
		return func(e *Exec, st *State, fn *ssa.Function, args []Value, depth int) []Outcome {
			name := e.nameArg(args[0])
			target := args[1]
			if iv, ok := target.(Iface); ok {
				target = iv.V
			}
			nm := map[string]Intrinsic{}
			for k, v := range st.Overrides {
				nm[k] = v
			}
			if target == nil {
				delete(nm, name)
				st.Overrides = nm
				return ret1(st, nil)
			}
			e.ContractsUsed = append(e.ContractsUsed, name)
			nm[name] = func(e *Exec, st *State, fn *ssa.Function, a []Value, depth int) []Outcome {
				return e.callValue(st, target, a, nil, depth+1, nil)
			}
			st.Overrides = nm
			return ret1(st, nil)
		}
	case "vUF":
		// vUF(name, args...): an uninterpreted function of big integers: equal argument terms give the same result
		return func(e *Exec, st *State, fn *ssa.Function, args []Value, depth int) []Outcome {
			name := e.nameArg(args[0])
			key := "uf:" + name
			if s, ok := args[1].(Slice); ok && s.Len > 0 {
				for _, el := range e.sliceElems(st, s) {
					key += fmt.Sprintf(":%d", e.bigGet(st, el).id)
				}
			}
			if v, ok := e.defKey[key]; ok {
				return ret1(st, e.newBig(st, v[0]))
			}
			t := e.TS.Fresh("uf_"+name, SInt)
			e.defKey[key] = []*Term{t}
			return ret1(st, e.newBig(st, t))
		}
	case "vNative":
		return func(e *Exec, st *State, fn *ssa.Function, args []Value, depth int) []Outcome {
			return ret1(st, e.TS.Bool(false))
		}
	case "vTier":
		return func(e *Exec, st *State, fn *ssa.Function, args []Value, depth int) []Outcome {
			if e.Tier == "thorough" {
				return ret1(st, e.TS.Int64(1))
			}
			return ret1(st, e.TS.Int64(0))
		}
	case "vBigEq", "vBigLe", "vBigLt":
		return func(e *Exec, st *State, fn *ssa.Function, args []Value, depth int) []Outcome {
			x, y := e.bigGet(st, args[0]), e.bigGet(st, args[1])
			switch n {
			case "vBigEq":
				return ret1(st, e.TS.Eq(x, y))
			case "vBigLe":
				return ret1(st, e.TS.Le(x, y))
			}
			return ret1(st, e.TS.Lt(x, y))
		}
	case "vAnd", "vOr", "vImplies", "vIff":
		return func(e *Exec, st *State, fn *ssa.Function, args []Value, depth int) []Outcome {
			a, b := e.boolTerm(args[0]), e.boolTerm(args[1])
			switch n {
			case "vAnd":
				return ret1(st, e.TS.And(a, b))
			case "vOr":
				return ret1(st, e.TS.Or(a, b))
			case "vImplies":
				return ret1(st, e.TS.Implies(a, b))
			}
			return ret1(st, e.TS.Iff(a, b))
		}
	case "vNot":
		return func(e *Exec, st *State, fn *ssa.Function, args []Value, depth int) []Outcome {
			return ret1(st, e.TS.Not(e.boolTerm(args[0])))
		}
	}
	return nil
}

func (e *Exec) observeString(st *State, v Value) string {
	if iv, ok := v.(Iface); ok {
		if iv.T == nil {
			return "nil"
		}
		if p, ok := iv.V.(Ptr); ok {
			if ptr, ok := iv.T.(*types.Pointer); ok && isBigInt(ptr.Elem()) {
				if p.Obj == 0 {
					return "nil"
				}
				return e.bigGet(st, p).String()
			}
		}
		return e.observeString(st, iv.V)
	}
	switch x := v.(type) {
	case *Term:
		return x.String()
	case string:
		return x
	}
	return e.describe(st, v)
}


func (e *Exec) addObligation(st *State, kind, label string, goal *Term) {
	ob := &Obligation{Harness: curHarnessOf(e), Label: label, Kind: kind, Goal: goal, FreshDefs: e.FreshDefs}
	ob.PC = append([]*Term{}, st.PC...)
	switch kind {
	case "assert":
		if goal.Op == OpBConst && goal.B {
			ob.Result = Unsat
			ob.Trivial = true
			ob.Solver = "fold"
			e.Obligations = append(e.Obligations, ob)
			return
		}
		as := append(append([]*Term{}, st.PC...), e.TS.Not(goal))
		ob.Asserts = e.relevant(as)
	case "reach":
		ob.Asserts = e.relevant(append([]*Term{}, st.PC...))
	}
	ob.Script = Script(ob.Asserts)
	ob.Vars = VarsOf(ob.Asserts)
	e.Obligations = append(e.Obligations, ob)
}

func curHarnessOf(e *Exec) string { return e.CurHarness }

func (o *Obligation) String() string {
	return fmt.Sprintf("%s/%s[%s]: %s (%s, %.2fs)", o.Harness, o.Label, o.Kind, o.Result, o.Solver, o.Secs)
}
