package sym

import (
	"fmt"
	"go/types"
	"math/big"
	"sort"
	"strings"
	"sync/atomic"

	"golang.org/x/tools/go/ssa"
)

// Value is one of:
//   *Term            Int/Bool scalar (all Go integers, bools; also the value of a big.Int struct and time.Time struct)
//   string           concrete string
//   SymStr           opaque symbolic string (equality only)
//   float64          concrete float
//   Ptr              pointer (Obj==0 is nil)
//   *Agg             struct or array value (immutable by convention)
//   Slice            slice header
//   Iface            interface value
//   *Closure         closure
//   *ssa.Function    function value
//   *ssa.Builtin
//   MapRef           reference to map object (Obj==0 nil map)
//   Tuple            multiple results
//   UnknownVal       value the engine could not compute (reading it makes the path inconclusive)
//   *Boxed           payload of boxed bytes
//   nil              nil func / untyped nil
type Value interface{}

type SymStr struct{ ID *Term }

type Ptr struct {
	Obj  int
	Path string // encoded path: "/i/j" indexes into nested aggregates; "" = whole object
}

type Agg struct{ Elems []Value }

type Slice struct {
	Base Ptr // pointer to the backing array (an Agg) ; Obj==0 => nil slice
	Off  int
	Len  int
	Cap  int
}

type Iface struct {
	T types.Type // dynamic type; nil => nil interface
	V Value
}

type Closure struct {
	Fn  *ssa.Function
	Env []Value
}

type MapRef struct{ Obj int }

type Tuple []Value

type UnknownVal struct{ Why string }

// Boxed models the bytes produced by marshalling a message: an opaque carrier of a deep snapshot.
type Boxed struct {
	T   types.Type
	Val Value
	// Snap holds snapshot objects referenced from Val (object id -> root value)
	Snap map[int]Value
}

// MapVal is the root value of a map object. Keys are canonical strings of concrete keys.
type MapVal struct {
	Keys []string // insertion order
	K    map[string]Value
	V    map[string]Value
}

func (m *MapVal) clone() *MapVal {
	n := &MapVal{Keys: append([]string{}, m.Keys...), K: map[string]Value{}, V: map[string]Value{}}
	for k, v := range m.K {
		n.K[k] = v
	}
	for k, v := range m.V {
		n.V[k] = v
	}
	return n
}

func pathAppend(p string, i int) string { return fmt.Sprintf("%s/%d", p, i) }

func pathElems(p string) []int {
	if p == "" {
		return nil
	}
	parts := strings.Split(p[1:], "/")
	out := make([]int, len(parts))
	for i, s := range parts {
		n := 0
		for _, c := range s {
			n = n*10 + int(c-'0')
		}
		out[i] = n
	}
	return out
}

// Object is a heap cell.
type Object struct {
	Root  Value
	Epoch int
	Typ   types.Type
	Site  string
}

// Heap is a two-level copy-on-write heap.
type Heap struct {
	base  map[int]*Object // frozen
	objs  map[int]*Object
	epoch int
}

var epochCounter int64
var objCounter int64

func newEpoch() int { return int(atomic.AddInt64(&epochCounter, 1)) }

func NewHeap() *Heap { return &Heap{base: map[int]*Object{}, objs: map[int]*Object{}, epoch: newEpoch()} }

func (h *Heap) Fork() *Heap {
	n := &Heap{base: h.base, objs: make(map[int]*Object, len(h.objs)), epoch: newEpoch()}
	for k, v := range h.objs {
		n.objs[k] = v
	}
	h.epoch = newEpoch() // parent must also copy-on-write from now on
	return n
}

// Freeze moves all objects into the shared base layer.
func (h *Heap) Freeze() {
	nb := make(map[int]*Object, len(h.base)+len(h.objs))
	for k, v := range h.base {
		nb[k] = v
	}
	for k, v := range h.objs {
		nb[k] = v
	}
	h.base = nb
	h.objs = map[int]*Object{}
	h.epoch = newEpoch()
}

func (h *Heap) Alloc(root Value, typ types.Type, site string) int {
	id := int(atomic.AddInt64(&objCounter, 1))
	h.objs[id] = &Object{Root: root, Epoch: h.epoch, Typ: typ, Site: site}
	return id
}

func (h *Heap) get(id int) *Object {
	if o, ok := h.objs[id]; ok {
		return o
	}
	return h.base[id]
}

func (h *Heap) writable(id int) *Object {
	o := h.get(id)
	if o == nil {
		return nil
	}
	if o.Epoch != h.epoch {
		o = &Object{Root: o.Root, Epoch: h.epoch, Typ: o.Typ, Site: o.Site}
		h.objs[id] = o
	}
	return o
}

func getPath(v Value, path []int) (Value, error) {
	for _, i := range path {
		a, ok := v.(*Agg)
		if !ok {
			return nil, fmt.Errorf("getPath: not an aggregate: %T", v)
		}
		if i < 0 || i >= len(a.Elems) {
			return nil, fmt.Errorf("getPath: index %d out of range %d", i, len(a.Elems))
		}
		v = a.Elems[i]
	}
	return v, nil
}

func setPath(v Value, path []int, nv Value) (Value, error) {
	if len(path) == 0 {
		return nv, nil
	}
	a, ok := v.(*Agg)
	if !ok {
		return nil, fmt.Errorf("setPath: not an aggregate: %T", v)
	}
	i := path[0]
	if i < 0 || i >= len(a.Elems) {
		return nil, fmt.Errorf("setPath: index %d out of range %d", i, len(a.Elems))
	}
	sub, err := setPath(a.Elems[i], path[1:], nv)
	if err != nil {
		return nil, err
	}
	n := &Agg{Elems: make([]Value, len(a.Elems))}
	copy(n.Elems, a.Elems)
	n.Elems[i] = sub
	return n, nil
}

func (h *Heap) Load(p Ptr) (Value, error) {
	o := h.get(p.Obj)
	if o == nil {
		return nil, fmt.Errorf("load of invalid pointer %v", p)
	}
	return getPath(o.Root, pathElems(p.Path))
}

func (h *Heap) Store(p Ptr, v Value) error {
	o := h.writable(p.Obj)
	if o == nil {
		return fmt.Errorf("store to invalid pointer %v", p)
	}
	r, err := setPath(o.Root, pathElems(p.Path), v)
	if err != nil {
		return err
	}
	o.Root = r
	return nil
}

// ---- canonical key for map keys (concrete only)

func keyString(v Value) (string, bool) {
	switch x := v.(type) {
	case *Term:
		if x.Op == OpConst {
			return "i" + x.Val.String(), true
		}
		if x.Op == OpBConst {
			if x.B {
				return "bT", true
			}
			return "bF", true
		}
		return "", false
	case string:
		return "s" + x, true
	case float64:
		return fmt.Sprintf("f%v", x), true
	case Ptr:
		return fmt.Sprintf("p%d%s", x.Obj, x.Path), true
	case *Agg:
		var sb strings.Builder
		sb.WriteString("{")
		for _, e := range x.Elems {
			k, ok := keyString(e)
			if !ok {
				return "", false
			}
			sb.WriteString(k + ";")
		}
		sb.WriteString("}")
		return sb.String(), true
	case Iface:
		if x.T == nil {
			return "nil", true
		}
		k, ok := keyString(x.V)
		return "I" + x.T.String() + ":" + k, ok
	case MapRef:
		return fmt.Sprintf("m%d", x.Obj), true
	}
	return "", false
}

func sortedKeys(m map[string]Value) []string {
	ks := make([]string, 0, len(m))
	for k := range m {
		ks = append(ks, k)
	}
	sort.Strings(ks)
	return ks
}

func isBigInt(t types.Type) bool {
	n, ok := t.(*types.Named)
	if !ok {
		return false
	}
	o := n.Obj()
	return o.Pkg() != nil && o.Pkg().Path() == "math/big" && o.Name() == "Int"
}

func isTime(t types.Type) bool {
	n, ok := t.(*types.Named)
	if !ok {
		return false
	}
	o := n.Obj()
	return o.Pkg() != nil && o.Pkg().Path() == "time" && o.Name() == "Time"
}

// zero time (year 1) in ns relative to unix epoch does not fit in int64 ns; we model
// time.Time as an unbounded Int of nanoseconds since the Unix epoch and the zero Time as this constant.
var zeroTimeNs = new(big.Int).Mul(big.NewInt(-62135596800), big.NewInt(1000000000))

type bigInt = big.Int

func newBigFromString(s string) (*big.Int, bool) { return new(big.Int).SetString(s, 10) }
