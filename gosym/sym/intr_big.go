package sym

import (
	"fmt"
	"go/types"
	"math/big"
	"strings"

	"golang.org/x/tools/go/ssa"
)

// Intrinsic replaces a function by engine code.
type Intrinsic func(e *Exec, st *State, fn *ssa.Function, args []Value, depth int) []Outcome

var intrinsics = map[string]Intrinsic{}

func (e *Exec) lookupIntrinsic(st *State, fn *ssa.Function) Intrinsic {
	name := fn.String()
	if st != nil && st.Overrides != nil {
		if in, ok := st.Overrides[name]; ok {
			return in
		}
	}
	if in, ok := intrinsics[name]; ok {
		return in
	}
	if in := e.patternIntrinsic(fn, name); in != nil {
		return in
	}
	return nil
}

func (e *Exec) runIntrinsic(in Intrinsic, st *State, fn *ssa.Function, args []Value, depth int) (outs []Outcome) {
	defer func() {
		if r := recover(); r != nil {
			if ee, ok := r.(*execError); ok {
				outs = []Outcome{{Kind: OutError, St: st, Why: ee.msg + " [intrinsic " + fn.String() + "]"}}
				return
			}
			panic(r)
		}
	}()
	return in(e, st, fn, args, depth)
}

func panicOut(e *Exec, st *State, msg string) []Outcome {
	return []Outcome{{Kind: OutPanic, St: st, Pan: Iface{T: types.Typ[types.String], V: msg}}}
}

var bigIntType types.Type // set by loader (named type math/big.Int)

func (e *Exec) bigGet(st *State, v Value) *Term {
	p, ok := v.(Ptr)
	if !ok {
		unsupported("big.Int receiver is %T", v)
	}
	if p.Obj == 0 {
		unsupported("nil *big.Int dereference")
	}
	t, ok := e.load(st, p).(*Term)
	if !ok {
		unsupported("big.Int cell does not hold a term")
	}
	return t
}

func (e *Exec) bigSet(st *State, v Value, t *Term) {
	e.store(st, v, t)
}

func (e *Exec) newBig(st *State, t *Term) Ptr {
	id := st.Heap.Alloc(t, bigIntType, "big.Int")
	return Ptr{Obj: id}
}

func isNilPtr(v Value) bool {
	p, ok := v.(Ptr)
	return ok && p.Obj == 0
}

func bigBin(op func(e *Exec, x, y *Term) *Term) Intrinsic {
	return func(e *Exec, st *State, fn *ssa.Function, args []Value, depth int) []Outcome {
		if isNilPtr(args[0]) || isNilPtr(args[1]) || isNilPtr(args[2]) {
			return []Outcome{{Kind: OutPanic, St: st, Pan: e.runtimeError("nil pointer dereference (big.Int)")}}
		}
		x, y := e.bigGet(st, args[1]), e.bigGet(st, args[2])
		e.bigSet(st, args[0], op(e, x, y))
		return ret1(st, args[0])
	}
}

func bigUn(op func(e *Exec, x *Term) *Term) Intrinsic {
	return func(e *Exec, st *State, fn *ssa.Function, args []Value, depth int) []Outcome {
		if isNilPtr(args[0]) || isNilPtr(args[1]) {
			return []Outcome{{Kind: OutPanic, St: st, Pan: e.runtimeError("nil pointer dereference (big.Int)")}}
		}
		x := e.bigGet(st, args[1])
		e.bigSet(st, args[0], op(e, x))
		return ret1(st, args[0])
	}
}

// bigDivLike handles the division family with the zero-divisor panic split.
func bigDivLike(kind string) Intrinsic {
	return func(e *Exec, st *State, fn *ssa.Function, args []Value, depth int) []Outcome {
		ts := e.TS
		for _, a := range args {
			if isNilPtr(a) {
				return []Outcome{{Kind: OutPanic, St: st, Pan: e.runtimeError("nil pointer dereference (big.Int)")}}
			}
		}
		x, y := e.bigGet(st, args[1]), e.bigGet(st, args[2])
		var outs []Outcome
		isZero := ts.Eq(y, ts.Int64(0))
		zOK, nzOK := false, true
		if isZero.Op == OpBConst {
			zOK, nzOK = isZero.B, !isZero.B
		} else {
			zOK, _ = e.feasible(st, isZero)
			if zOK {
				nzOK, _ = e.feasible(st, ts.Not(isZero))
			}
		}
		stNZ := st
		if zOK {
			stZ := st
			if nzOK {
				stZ = st.Fork()
			}
			if isZero.Op != OpBConst {
				stZ.PC = append(stZ.PC, isZero)
			}
			outs = append(outs, Outcome{Kind: OutPanic, St: stZ, Pan: e.runtimeError("division by zero")})
		}
		if !nzOK {
			return outs
		}
		if isZero.Op != OpBConst && zOK {
			stNZ.PC = append(stNZ.PC, ts.Not(isZero))
		}
		var res Value = args[0]
		switch kind {
		case "Quo":
			q, _ := e.truncDivRem(x, y)
			e.bigSet(stNZ, args[0], q)
		case "Rem":
			_, r := e.truncDivRem(x, y)
			e.bigSet(stNZ, args[0], r)
		case "QuoRem":
			q, r := e.truncDivRem(x, y)
			e.bigSet(stNZ, args[0], q)
			e.bigSet(stNZ, args[3], r)
			res = Tuple{args[0], args[3]}
		case "Div":
			q, _ := e.euclidDivMod(x, y)
			e.bigSet(stNZ, args[0], q)
		case "Mod":
			_, m := e.euclidDivMod(x, y)
			e.bigSet(stNZ, args[0], m)
		case "DivMod":
			q, m := e.euclidDivMod(x, y)
			e.bigSet(stNZ, args[0], q)
			e.bigSet(stNZ, args[3], m)
			res = Tuple{args[0], args[3]}
		}
		outs = append(outs, Outcome{Kind: OutReturn, St: stNZ, Ret: res})
		return outs
	}
}

func (e *Exec) cmpTerm(x, y *Term) *Term {
	ts := e.TS
	return ts.Ite(ts.Lt(x, y), ts.Int64(-1), ts.Ite(ts.Eq(x, y), ts.Int64(0), ts.Int64(1)))
}

var DefaultBitLenThresholds = []int{0, 1, 63, 64, 255, 256, 257, 1023, 1024, 1025, 1143, 1144, 1145}

func (e *Exec) bitLen(x *Term) *Term {
	ts := e.TS
	if x.Op == OpConst {
		return ts.Int64(int64(x.Val.BitLen()))
	}
	key := fmt.Sprintf("bitlen:%d", x.id)
	if v, ok := e.defKey[key]; ok {
		return v[0]
	}
	var lLo, lHi *big.Int
	lLo = new(big.Int)
	if x.Lo != nil && x.Hi != nil {
		// |x| <= max(|lo|,|hi|)
		m := new(big.Int).Abs(x.Lo)
		if h := new(big.Int).Abs(x.Hi); h.Cmp(m) > 0 {
			m = h
		}
		lHi = big.NewInt(int64(m.BitLen()))
		if x.Lo.Sign() > 0 {
			lLo = big.NewInt(int64(x.Lo.BitLen()))
		} else if x.Hi.Sign() < 0 {
			lLo = big.NewInt(int64(x.Hi.BitLen()))
		}
	}
	l := ts.FreshBounded("bitlen", lLo, lHi)
	e.FreshDefs[l.Name] = &FreshDef{Kind: "bitlen", Args: []*Term{x}}
	ax := e.absTerm(x)
	ths := DefaultBitLenThresholds
	if e.BitLenDense > 0 {
		ths = nil
		for c := 0; c <= e.BitLenDense; c++ {
			ths = append(ths, c)
		}
	}
	for _, c := range ths {
		// L >= c+1  <=>  |x| >= 2^c
		e.addDef(ts.Iff(ts.Ge(l, ts.Int64(int64(c+1))), ts.Ge(ax, ts.Int(new(big.Int).Lsh(big.NewInt(1), uint(c))))))
	}
	e.defKey[key] = []*Term{l}
	return l
}

func init() {
	R := func(name string, in Intrinsic) { intrinsics[name] = in }
	R("math/big.NewInt", func(e *Exec, st *State, fn *ssa.Function, args []Value, depth int) []Outcome {
		return ret1(st, e.newBig(st, args[0].(*Term)))
	})
	R("cosmossdk.io/math.bigIntOverflows", func(e *Exec, st *State, fn *ssa.Function, args []Value, depth int) []Outcome {
		// model of the dependency helper: overflow is defined as BitLen() > 256 (its own comment)
		x := e.bigGet(st, args[0])
		return ret1(st, e.TS.Ge(e.absTerm(x), e.TS.Int(new(big.Int).Lsh(big.NewInt(1), 256))))
	})
	R("(*math/big.Int).Set", bigUn(func(e *Exec, x *Term) *Term { return x }))
	R("(*math/big.Int).Neg", bigUn(func(e *Exec, x *Term) *Term { return e.TS.Neg(x) }))
	R("(*math/big.Int).Abs", bigUn(func(e *Exec, x *Term) *Term { return e.absTerm(x) }))
	R("(*math/big.Int).Sqrt", func(e *Exec, st *State, fn *ssa.Function, args []Value, depth int) []Outcome {
		x := e.bigGet(st, args[1])
		neg := e.TS.Lt(x, e.TS.Int64(0))
		if ok, _ := e.feasible(st, neg); ok {
			if neg.Op == OpBConst {
				return panicOut(e, st, "square root of negative number")
			}
			unsupported("big.Int.Sqrt of possibly negative value")
		}
		e.bigSet(st, args[0], e.isqrt(x))
		return ret1(st, args[0])
	})
	R("(*math/big.Int).SetInt64", func(e *Exec, st *State, fn *ssa.Function, args []Value, depth int) []Outcome {
		e.bigSet(st, args[0], args[1].(*Term))
		return ret1(st, args[0])
	})
	R("(*math/big.Int).SetUint64", intrinsics["(*math/big.Int).SetInt64"])
	R("(*math/big.Int).Add", bigBin(func(e *Exec, x, y *Term) *Term { return e.TS.Add(x, y) }))
	R("(*math/big.Int).Sub", bigBin(func(e *Exec, x, y *Term) *Term { return e.TS.Sub(x, y) }))
	R("(*math/big.Int).Mul", bigBin(func(e *Exec, x, y *Term) *Term { return e.TS.Mul(x, y) }))
	for _, k := range []string{"Quo", "Rem", "QuoRem", "Div", "Mod", "DivMod"} {
		R("(*math/big.Int)."+k, bigDivLike(k))
	}
	R("(*math/big.Int).Cmp", func(e *Exec, st *State, fn *ssa.Function, args []Value, depth int) []Outcome {
		if isNilPtr(args[0]) || isNilPtr(args[1]) {
			return []Outcome{{Kind: OutPanic, St: st, Pan: e.runtimeError("nil pointer dereference (big.Int.Cmp)")}}
		}
		return ret1(st, e.cmpTerm(e.bigGet(st, args[0]), e.bigGet(st, args[1])))
	})
	R("(*math/big.Int).CmpAbs", func(e *Exec, st *State, fn *ssa.Function, args []Value, depth int) []Outcome {
		return ret1(st, e.cmpTerm(e.absTerm(e.bigGet(st, args[0])), e.absTerm(e.bigGet(st, args[1]))))
	})
	R("(*math/big.Int).Sign", func(e *Exec, st *State, fn *ssa.Function, args []Value, depth int) []Outcome {
		if isNilPtr(args[0]) {
			return []Outcome{{Kind: OutPanic, St: st, Pan: e.runtimeError("nil pointer dereference (big.Int.Sign)")}}
		}
		return ret1(st, e.cmpTerm(e.bigGet(st, args[0]), e.TS.Int64(0)))
	})
	R("(*math/big.Int).BitLen", func(e *Exec, st *State, fn *ssa.Function, args []Value, depth int) []Outcome {
		return ret1(st, e.bitLen(e.bigGet(st, args[0])))
	})
	R("(*math/big.Int).Bit", func(e *Exec, st *State, fn *ssa.Function, args []Value, depth int) []Outcome {
		x := e.bigGet(st, args[0])
		i := e.concreteInt(args[1], "Bit index")
		// two's complement semantics: bit i of x == floor(x / 2^i) mod 2
		sh := new(big.Int).Lsh(big.NewInt(1), uint(i))
		return ret1(st, e.TS.ModC(e.TS.DivC(x, sh), big.NewInt(2)))
	})
	R("(*math/big.Int).Lsh", func(e *Exec, st *State, fn *ssa.Function, args []Value, depth int) []Outcome {
		cnt, _ := args[2].(*Term)
		if cnt != nil && cnt.Op != OpConst {
			// a symbolic count with few possible values: fork on them
			sts, vals := e.forkOnValues(st, cnt, 8, "Lsh count")
			var outs []Outcome
			for i, s2 := range sts {
				if !vals[i].IsInt64() || vals[i].Int64() > 1<<20 {
					unsupported("huge Lsh count")
				}
				x := e.bigGet(s2, args[1])
				e.bigSet(s2, args[0], e.TS.Mul(x, e.TS.Int(new(big.Int).Lsh(big.NewInt(1), uint(vals[i].Int64())))))
				outs = append(outs, Outcome{Kind: OutReturn, St: s2, Ret: args[0]})
			}
			return outs
		}
		x := e.bigGet(st, args[1])
		n := e.concreteInt(args[2], "Lsh count")
		e.bigSet(st, args[0], e.TS.Mul(x, e.TS.Int(new(big.Int).Lsh(big.NewInt(1), uint(n)))))
		return ret1(st, args[0])
	})
	R("(*math/big.Int).Rsh", func(e *Exec, st *State, fn *ssa.Function, args []Value, depth int) []Outcome {
		x := e.bigGet(st, args[1])
		n := e.concreteInt(args[2], "Rsh count")
		// big.Int.Rsh implements arithmetic shift (floor)
		e.bigSet(st, args[0], e.TS.DivC(x, new(big.Int).Lsh(big.NewInt(1), uint(n))))
		return ret1(st, args[0])
	})
	R("(*math/big.Int).Exp", func(e *Exec, st *State, fn *ssa.Function, args []Value, depth int) []Outcome {
		x, y := e.bigGet(st, args[1]), e.bigGet(st, args[2])
		if !isNilPtr(args[3]) {
			m := e.bigGet(st, args[3])
			if m.Op != OpConst || m.Val.Sign() != 0 {
				if x.Op == OpConst && y.Op == OpConst && m.Op == OpConst {
					e.bigSet(st, args[0], e.TS.Int(new(big.Int).Exp(x.Val, y.Val, m.Val)))
					return ret1(st, args[0])
				}
				unsupported("big.Int.Exp with symbolic modulus")
			}
		}
		if y.Op != OpConst {
			unsupported("big.Int.Exp with symbolic exponent")
		}
		if y.Val.Sign() <= 0 {
			e.bigSet(st, args[0], e.TS.Int64(1))
			return ret1(st, args[0])
		}
		if x.Op == OpConst {
			e.bigSet(st, args[0], e.TS.Int(new(big.Int).Exp(x.Val, y.Val, nil)))
			return ret1(st, args[0])
		}
		if !y.Val.IsInt64() || y.Val.Int64() > 64 {
			unsupported("big.Int.Exp symbolic base with large exponent")
		}
		acc := e.TS.Int64(1)
		for i := int64(0); i < y.Val.Int64(); i++ {
			acc = e.TS.Mul(acc, x)
		}
		e.bigSet(st, args[0], acc)
		return ret1(st, args[0])
	})
	R("(*math/big.Int).Int64", func(e *Exec, st *State, fn *ssa.Function, args []Value, depth int) []Outcome {
		x := e.bigGet(st, args[0])
		return ret1(st, e.wrap(x, types.Typ[types.Int64]))
	})
	R("(*math/big.Int).Uint64", func(e *Exec, st *State, fn *ssa.Function, args []Value, depth int) []Outcome {
		x := e.bigGet(st, args[0])
		// low 64 bits of |x|
		return ret1(st, e.wrap(e.absTerm(x), types.Typ[types.Uint64]))
	})
	R("(*math/big.Int).IsInt64", func(e *Exec, st *State, fn *ssa.Function, args []Value, depth int) []Outcome {
		x := e.bigGet(st, args[0])
		lo, hi := intRange(64, true)
		return ret1(st, e.TS.And(e.TS.Le(e.TS.Int(lo), x), e.TS.Le(x, e.TS.Int(hi))))
	})
	R("(*math/big.Int).IsUint64", func(e *Exec, st *State, fn *ssa.Function, args []Value, depth int) []Outcome {
		x := e.bigGet(st, args[0])
		lo, hi := intRange(64, false)
		return ret1(st, e.TS.And(e.TS.Le(e.TS.Int(lo), x), e.TS.Le(x, e.TS.Int(hi))))
	})
	R("(*math/big.Int).SetString", func(e *Exec, st *State, fn *ssa.Function, args []Value, depth int) []Outcome {
		s, ok := args[1].(string)
		if !ok {
			unsupported("big.Int.SetString of symbolic string")
		}
		base := e.concreteInt(args[2], "base")
		v, ok2 := new(big.Int).SetString(s, base)
		if !ok2 {
			return ret1(st, Tuple{Ptr{}, e.TS.Bool(false)})
		}
		e.bigSet(st, args[0], e.TS.Int(v))
		return ret1(st, Tuple{args[0], e.TS.Bool(true)})
	})
	strOf := func(e *Exec, st *State, v Value, base int) Value {
		if isNilPtr(v) {
			return "<nil>"
		}
		x := e.bigGet(st, v)
		if x.Op != OpConst {
			return e.opaqueString("bigstr", x)
		}
		return x.Val.Text(base)
	}
	R("(*math/big.Int).String", func(e *Exec, st *State, fn *ssa.Function, args []Value, depth int) []Outcome {
		return ret1(st, strOf(e, st, args[0], 10))
	})
	R("(*math/big.Int).Text", func(e *Exec, st *State, fn *ssa.Function, args []Value, depth int) []Outcome {
		return ret1(st, strOf(e, st, args[0], e.concreteInt(args[1], "base")))
	})
	R("(*math/big.Int).Bytes", func(e *Exec, st *State, fn *ssa.Function, args []Value, depth int) []Outcome {
		x := e.bigGet(st, args[0])
		if x.Op != OpConst {
			unsupported("big.Int.Bytes of symbolic value")
		}
		return ret1(st, e.stringToBytes(st, string(x.Val.Bytes())))
	})
	R("(*math/big.Int).SetBytes", func(e *Exec, st *State, fn *ssa.Function, args []Value, depth int) []Outcome {
		s, ok := e.bytesToString(st, args[1].(Slice))
		if !ok {
			unsupported("big.Int.SetBytes of symbolic bytes")
		}
		e.bigSet(st, args[0], e.TS.Int(new(big.Int).SetBytes([]byte(s))))
		return ret1(st, args[0])
	})
	R("(*math/big.Int).Bits", func(e *Exec, st *State, fn *ssa.Function, args []Value, depth int) []Outcome {
		// only the word count of the result is modelled (callers compare it with a word limit); it must be
		// determined by the value's interval up to the 4-word (256-bit) limit used by the sdk
		x := e.bigGet(st, args[0])
		words := func(v *big.Int) int { return (new(big.Int).Abs(v).BitLen() + 63) / 64 }
		n := -1
		if x.Op == OpConst {
			n = words(x.Val)
		} else if x.Lo != nil && x.Hi != nil {
			maxW := words(x.Lo)
			if w := words(x.Hi); w > maxW {
				maxW = w
			}
			if maxW <= 4 {
				n = maxW
			}
		}
		if n < 0 {
			unsupported("big.Int.Bits of a value whose word count is not determined")
		}
		vals := make([]Value, n)
		for i := range vals {
			vals[i] = UnknownVal{Why: "word of a symbolic big.Int"}
		}
		if n == 0 {
			return ret1(st, Slice{})
		}
		return ret1(st, e.sliceFromValues(st, types.Typ[types.Uint], vals))
	})
	R("(*math/big.Int).TrailingZeroBits", func(e *Exec, st *State, fn *ssa.Function, args []Value, depth int) []Outcome {
		x := e.bigGet(st, args[0])
		if x.Op != OpConst {
			unsupported("TrailingZeroBits of symbolic value")
		}
		return ret1(st, e.TS.Int64(int64(x.Val.TrailingZeroBits())))
	})
	R("(*math/big.Int).MarshalText", func(e *Exec, st *State, fn *ssa.Function, args []Value, depth int) []Outcome {
		x := e.bigGet(st, args[0])
		if x.Op != OpConst {
			// digits of a symbolic integer: an opaque string that is an injective function of the value
			ss := e.opaqueString("bigstr", x).(SymStr)
			if e.bigstrBack == nil {
				e.bigstrBack = map[int]*Term{}
			}
			e.bigstrBack[ss.ID.id] = x
			return ret1(st, Tuple{e.symStringBytes(st, ss), Iface{}})
		}
		return ret1(st, Tuple{e.stringToBytes(st, x.Val.String()), Iface{}})
	})
	// the inverse of MarshalText: concrete digits are parsed, the opaque digit string of a symbolic integer gives it back
	R("(*math/big.Int).UnmarshalText", func(e *Exec, st *State, fn *ssa.Function, args []Value, depth int) []Outcome {
		sl, ok := args[1].(Slice)
		if !ok {
			unsupported("big.Int.UnmarshalText of %T", args[1])
		}
		if ss, ok := e.symBytesString(st, sl); ok {
			if x, ok := e.bigstrBack[ss.(SymStr).ID.id]; ok {
				e.bigSet(st, args[0], x)
				return ret1(st, Iface{})
			}
			unsupported("big.Int.UnmarshalText of an opaque string that is not a rendered integer")
		}
		str, ok := e.bytesToString(st, sl)
		if !ok {
			unsupported("big.Int.UnmarshalText of symbolic bytes")
		}
		v, ok := new(big.Int).SetString(str, 0)
		if !ok {
			return ret1(st, e.makeError(st, "math/big: cannot unmarshal "+str+" into a *big.Int"))
		}
		e.bigSet(st, args[0], e.TS.Int(v))
		return ret1(st, Iface{})
	})
}

// opaqueString returns a symbolic string that is an injective function of the term.
func (e *Exec) opaqueString(kind string, x *Term) Value {
	key := fmt.Sprintf("ostr:%s:%d", kind, x.id)
	if v, ok := e.defKey[key]; ok {
		return SymStr{ID: v[0]}
	}
	id := e.TS.Fresh("str_"+kind, SInt)
	e.addDef(e.TS.Lt(id, e.TS.Int64(0)))
	e.defKey[key] = []*Term{id}
	return SymStr{ID: id}
}

// patternIntrinsic recognises families of functions by name shape.
func (e *Exec) patternIntrinsic(fn *ssa.Function, name string) Intrinsic {
	if strings.HasPrefix(name, "(*math/big.Int).") || strings.HasPrefix(name, "math/big.") {
		return func(e *Exec, st *State, fn *ssa.Function, args []Value, depth int) []Outcome {
			unsupported("math/big function without intrinsic: %s", fn.String())
			return nil
		}
	}
	return e.patternIntrinsicStd(fn, name)
}
